"""C20 - physical, described and bit-field views agree with the raw value.

SUT: canopen.variable.Variable.phys/.desc/.bits/.read/.write, canopen.variable.Bits and
ODVariable.encode_phys/decode_phys/encode_desc/decode_desc/encode_bits/decode_bits, reached
through the accessor layer of three carriers:

  local   LocalNode.sdo[...]                     (observed: LocalNode.data_store)
  remote  RemoteNode.sdo[...] <-> LocalNode      (SDO over the simulated hub; observed: the
                                                  server's data_store)
  pdo     byte-aligned PdoVariable in a PdoMap   (LocalNode.tpdo[1] or RemoteNode.rpdo[1];
                                                  observed: PdoMap.data incl. the neighbours)

Every variable under test is an integer variable that carries a scaling factor, a value
description table AND bit definitions at the same time (that is what the property quantifies
over); it sits at top level or in a record/array and has neighbours that must stay unchanged.

A case is one such variable plus a short history of operations; it is executed on each carrier
named in the case against an independent model (an unsigned bit pattern of the type's width,
exact rational arithmetic for the scaling) and compared after every step.  The stored bytes are
decoded by the harness (int.from_bytes), never by canopen.

Clause -> case family
  (a) "setting the physical value and reading it back differs from the request by at most half a
      scaling step and the raw value is the nearest integer of value/factor"
        op "phys" (families phys/*: enumerated factors +-m*10^e, e=-6..6, small ints, binary
        fractions x every integer type x range ends, 0, +-1, powers of two x offsets 0, +-1/4,
        +-0.49, +-0.4999, +-1/2 (tie, either neighbour accepted), 1/3 inside the rounding
        interval; Hypothesis histories add random factors/raws/offsets).  Set through
        `var.phys = x` and `var.write(x, "phys")`, read through `var.phys` / `var.read("phys")`.
        Float slack only where float arithmetic needs it: when x and x/f are exact doubles (e.g.
        exact multiples, family phys exact: |x/f| in 2^51..2^53 on the 56/64-bit types with
        power-of-two factors) the stored raw value must be exactly x/f.  Family limits: od.min /
        od.max are set; a request whose nearest integer lies beyond them is stored as that integer
        or refused without writing - never silently replaced by another value.
  (b) "setting a description writes exactly the value it names and reading returns the
      description of the current value"
        ops "desc" / "desc_get" (families desc/*: tables of every size 1..20 on every type with
        values at the range ends, texts that are prefixes / case variants / padded variants of
        each other).  Texts that are not in the table must be refused and must not write; a
        current value without description must not be given one (any exception type).
  (c) "assigning to a bit field given as a bit number, a list, a slice or a defined name changes
      exactly those bits of the raw value and reading the field returns them"
        ops "bset" / "bget" (families bits/*: EVERY contiguous range lo..hi within 32 bits, 528
        ranges, in the spellings int (lo == hi), list, slice `bits[lo:hi+1]`, slice with explicit
        step 1, `bits[:hi+1]` (lo == 0), defined name, and the list in descending order; field
        values all-ones, 0, pseudo-random, alternating on a pseudo-random start pattern and on
        its complement, so that both clearing and setting are observable; optionally through one
        Bits object kept over consecutive assignments).  Further spellings of the same range: the
        descending slice `bits[hi:lo-1:-1]` (lo >= 1) and the list in rotated (non-monotonic)
        order.  Signed carrier types are used for the ranges below their sign bit (negative raw
        values included); fields that include the sign bit of INTEGER8/16/24/32 are read and
        assigned in every spelling (family bits/*/read-incl-sign-bit).
        op "bitdef": `var.od.add_bit_definition(name, bits)` AFTER the variable has been used - a
        new name, or an existing name moved to other bits; later ops by that name must use the
        definition that is current then.
  (d) "these views behave the same over SDO and PDO variables"
        every enumerated case runs on all three carriers; apart from the absolute oracle the
        observations (stored pattern + returned values) are compared between the carriers.
        The PDO carrier has four sides: LocalNode.tpdo / RemoteNode.rpdo (built locally) and
        RemoteNode.tpdo / LocalNode.rpdo (receive direction: the map is subscribed on a simulated
        bus and values - the initial one, "raw" ops with via=rx, "poke" ops with route=rx - ARRIVE
        as frames through Network.notify -> PdoMap.on_message; the views must then read AND
        assign like on any other variable).

The value behind the variable is not owned by the accessor object under test:
  op "poke" changes the stored value out of band (a second, fresh accessor object of the same
        entry; the node's set_data / the server application on the remote carrier; in-place or
        replaced PdoMap.data, or a received frame on the PDO carrier).  "The current value" of
        clause (b) and "the raw value" of (a)/(c) is the stored one: reads after a poke must show
        it, and a set repeated with the identical argument must write again.  Set ops may carry
        noread=true (no read-back in the same step), so that write -> poke -> read is generated.
  op "refactor" assigns `var.od.factor` mid-history (the scaling factor of the variable is
        corrected by the application); later phys ops are judged against the factor current then.
  flag "fault" on a set op (raw / phys / desc / bset): that one assignment FAILS - the device's application
        refuses the write once (write callback raising SdoAbortedError; local and remote carrier), or one
        frame of the SDO download is lost and the client times out (remote carrier: the initiate-download
        request, or its confirmation).  Nothing is demanded of the failing step; the model takes what is
        stored afterwards.  The application then (mostly) repeats the assignment through the same variable
        object / the same kept Bits object: every assignment that RETURNS NORMALLY must have changed the
        stored raw value as the statement says (family fault/*, Hypothesis kind "fault").
  op "phys_get" reads `var.phys` of whatever is stored (after a poke / refactor): must lie
        within half a step (+ float slack) of raw * factor.
"""
from fractions import Fraction

from hypothesis import strategies as st

from harness import refcodec as rc
from harness.core import Discrepancy, Outcome
from harness.odutil import build_od
from harness.simbus import Hub

PROPERTY = "C20"
LEVEL = "exploration"
RULE = ("case = integer variable (type, factor, description table 1..20, bit definitions, position "
        "var/record/array, PDO padding) + initial raw value + history of 1..12 ops (raw | phys set+read "
        "back | desc set+read | desc read | bit field set+read | bit field read | poke | refactor | bitdef | "
        "redesc | phys read) executed on the "
        "carriers local SDO, remote SDO over the hub and PDO map. Enumerated: all 528 contiguous "
        "ranges within 32 bits x spellings {int,list,slice,slice-step1,slice-nostart,name,"
        "list-descending,list-rotated,slice-descending} x carrier types that hold them (quick: UNSIGNED32 + one rotating type, "
        "thorough: every type), reads of every field ending at the sign bit of INTEGER8..32, ~120 factors x types x boundary raws x offsets inside the rounding "
        "interval, tables of every size 1..20 x types; Hypothesis adds mixed histories, incl. "
        "edits of the description table between uses (add_value_description: new text for a described "
        "value, or one more entry), and a second variable that defines fields of the same names at other bit "
        "positions and is used first. Further ops: poke (the stored value is changed OUT OF BAND: fresh "
        "accessor object of the same entry / node.set_data or the server application / PdoMap.data in place, "
        "replaced, or a received frame) followed by reads and by sets repeated with the identical argument; "
        "set ops without read-back (noread); refactor (var.od.factor assigned mid-history); bitdef "
        "(add_bit_definition after first use: new name, or an existing name moved) followed by ops by that "
        "name; phys_get. Spellings also: descending slice bits[hi:lo-1:-1], list in rotated order. PDO carrier "
        "sides: LocalNode.tpdo, RemoteNode.rpdo, and the receive direction RemoteNode.tpdo, LocalNode.rpdo "
        "where values arrive as frames via Network.notify -> PdoMap.on_message (init_via / via / route = rx) "
        "and the views are then assigned like anywhere else. Family limits: od.min/od.max set on the variable, "
        "phys requests inside and outside. Enumerated families for each of these + Hypothesis. Oracle: "
        "bit-pattern model + exact rationals: |raw - x/f| <= 1/2 + slack with slack = 0 when x and x/f are "
        "exactly representable doubles (a correctly rounded division returns x/f itself: exact multiples must "
        "give exactly that raw value, exact ties either neighbour), else 2^-53|x/f| per float rounding (1, or 2 "
        "when x is an int that is no double); |readback - x| <= |f|/2 + |f|*slack + 2^-53|raw*f|; phys_get: "
        "|y - raw*f| <= |f|/2 + float slack; a phys request whose nearest integer lies outside od.min/od.max "
        "must be stored as that nearest integer or be refused without writing (never silently another value); "
        "desc/bits exact; stored bytes decoded by the harness. Flag fault on a set op: the assignment is carried "
        "out while the device refuses the write once (write callback raising SdoAbortedError; local + remote "
        "carrier) or while one frame of the SDO download is lost (initiate request / its confirmation; remote "
        "carrier, client time-out); the failing step is not judged (model := what is stored afterwards), it is "
        "followed by the identical assignment through the same variable / the same kept Bits object and by reads, "
        "all judged as usual - an assignment that returns normally must have changed the stored bits. Non-trivial = a "
        "phys op with factor != 1, a desc op on a table of >= 2 entries, or a bit op with lo > 0 and "
        "hi > lo; distinct = canonical JSON of the case.")
ASSUMPTIONS = [
    "scaling is float arithmetic (factor is documented as float): the nearest-integer demand carries a "
    "relative slack of 2^-53 of |x/f| per float rounding (none when x and x/f are exact doubles), requests "
    "with |x/f| >= 2^53 are out of domain",
    "requests whose nearest integer (within that slack) lies outside the type's range are out of domain",
    "a field value must fit the field; on signed carrier types fields are assigned only below the sign bit "
    "(fields including it are only read)",
    "'refused' (unknown description text, value without description) accepts any exception type",
    "a Bits object is a snapshot: it is only reused across consecutive bit assignments, never across "
    "other writes; after an assignment through it has raised it is only used to repeat that very assignment "
    "(same range, same value, any spelling) - anything else starts from a fresh var.bits",
    "nothing is demanded of an assignment that raises because the device refused the write or a frame was lost "
    "(the stored value afterwards is taken as it is); a LocalNode write callback raising SdoAbortedError is the "
    "documented way for a device application to refuse a write",
    "description texts are non-empty and distinct, described values distinct and inside the type's range",
    "the stored value (LocalNode.data_store / the SDO server's store / PdoMap.data) is THE raw value: it may be "
    "changed by another accessor object, the application or a received PDO at any time between two operations",
    "od.factor, add_value_description and add_bit_definition are the documented ways to edit a variable's "
    "scaling / table / fields and may be used after the variable has been accessed",
    "frames received for a PDO map have exactly the mapped length",
    "od.min / od.max only ever matter for phys requests that fall outside them: those may be refused "
    "(exception, nothing written) or stored unclamped; histories with limits contain only phys / raw ops "
    "inside the limits and are not compared between carriers",
]
BUDGET = {"quick": 150, "thorough": 400}

NODE = 5
INT_TYPES = sorted(rc.INTEGERS)
PAD_DT = {1: rc.UNSIGNED8, 2: rc.UNSIGNED16, 3: rc.UNSIGNED24}
V_INDEX = 0x2001
PAD_INDEX = 0x2000
TAIL_INDEX = 0x2002
PADBIT_INDEX = 0x2003
TWO53 = Fraction(1, 1 << 53)
SPELLINGS = ("int", "list", "list_rev", "list_rot", "slice", "slice0", "slice1", "slice_rev", "name")
PDO_SIDES = ("tpdo", "rpdo", "rx_tpdo", "rx_rpdo")
ROUTES = ("accessor", "backdoor", "rx")
SET_KINDS = ("raw", "phys", "desc", "bset")
FAULTS = ("refuse", "lost_req", "lost_resp")      # see op flag "fault"
FAULT_CARRIERS = {"refuse": ("local", "remote"), "lost_req": ("remote",), "lost_resp": ("remote",)}
REFUSE_CODE = 0x08000022        # "data cannot be transferred or stored because of the present device state"


# ---- small helpers ---------------------------------------------------------------
def _w(dt):
    return rc.INTEGERS[dt]


def _usable(dt):
    """Number of low bits that can be used as bit fields (below the sign bit)."""
    return _w(dt) - 1 if dt in rc.SIGNED else _w(dt)


def _pat(dt, value):
    return value & ((1 << _w(dt)) - 1)


def _val(dt, pattern):
    w = _w(dt)
    if dt in rc.SIGNED and pattern >> (w - 1):
        return pattern - (1 << w)
    return pattern


def _bytes(dt, pattern):
    return pattern.to_bytes(_w(dt) // 8, "little")


def bit_name(lo, hi):
    return f"F{lo}_{hi}"


def _key(op):
    lo, hi, sp = op["lo"], op["hi"], op["sp"]
    if sp == "int":
        return lo
    if sp == "list":
        return list(range(lo, hi + 1))
    if sp == "list_rev":
        return list(range(hi, lo - 1, -1))
    if sp == "list_rot":                    # the same bits, neither ascending nor descending
        k = 1 + (lo * 7 + hi) % (hi - lo)
        return list(range(lo + k, hi + 1)) + list(range(lo, lo + k))
    if sp == "slice_rev":
        return slice(hi, lo - 1, -1)        # bits[hi:lo-1:-1]
    if sp == "slice":
        return slice(lo, hi + 1)            # what bits[lo:hi+1] hands to __getitem__
    if sp == "slice0":
        return slice(None, hi + 1)          # bits[:hi+1]
    if sp == "slice1":
        return slice(lo, hi + 1, 1)
    if sp == "name":
        return op.get("name") or bit_name(lo, hi)
    raise ValueError(sp)


def _frac(x):
    """Exact rational value of an int/float; None for nan/inf/other."""
    if isinstance(x, bool) or not isinstance(x, (int, float)):
        return None
    try:
        return Fraction(x)
    except (ValueError, OverflowError):
        return None


def _floor(q):
    return q.numerator // q.denominator


def _ceil(q):
    return -((-q.numerator) // q.denominator)


def _is_double(q):
    """Is the rational q exactly representable as a float (Fraction -> float is correctly rounded)."""
    try:
        return Fraction(float(q)) == q
    except OverflowError:
        return False


def quot_slack(x, q):
    """How far a float evaluation of x / f may be from the exact quotient q.

    x (an exact double, or an int) and f are given exactly.  A correctly rounded division returns
    q itself when q is a double; otherwise it is off by at most 2^-53 |q|.  An int x that is no
    double is rounded once more on its way into the division."""
    x_exact = isinstance(x, float) or _is_double(Fraction(x))
    if x_exact and _is_double(q):
        return Fraction(0)
    if x_exact:
        return abs(q) * TWO53
    return abs(q) * (2 * TWO53 + TWO53 * TWO53)


def phys_tol(x, q):
    return Fraction(1, 2) + quot_slack(x, q)


def prod_slack(r, f):
    """How far a float evaluation of r * f may be from the exact product (r an int)."""
    p = abs(r * f)
    if _is_double(Fraction(r)):
        return Fraction(0) if _is_double(r * f) else p * TWO53
    return p * (2 * TWO53 + TWO53 * TWO53)


# ---- domain of a case (static: depends on the case only) ---------------------------
def domain(case):
    """None when every op of the case is inside the property's domain, else the reason."""
    dt = case["dt"]
    lo_v, hi_v = rc.int_range(dt)
    f = _frac(case["factor"])
    if f is None or f == 0:
        return "factor is not a finite non-zero number"
    if not lo_v <= case["init"] <= hi_v:
        return "raw value outside the type's range"
    limits = case.get("limits")
    if limits:
        if not lo_v <= limits[0] <= case["init"] <= limits[1] <= hi_v:
            return "limits: min <= initial value <= max within the type's range wanted"
    names = {n: (a, b) for n, a, b in case.get("bitnames", [])}
    for op in case["ops"]:
        k = op["op"]
        if limits and k not in ("raw", "poke", "phys", "phys_get"):
            return "limits: only raw / phys histories are judged with od.min / od.max set"
        if op.get("fault") is not None:
            if op["fault"] not in FAULTS or k not in SET_KINDS:
                return "generator error: fault flag on an op that does not assign / unknown fault"
            if limits:
                return "limits: histories with a failing assignment are not generated with od.min / od.max set"
            if any(c not in FAULT_CARRIERS[op["fault"]] for c in case["carriers"]):
                return "this way for an assignment to fail does not exist on one of the case's carriers"
        if k in ("raw", "poke"):
            if not lo_v <= op["v"] <= hi_v:
                return "raw value outside the type's range"
            if limits and not limits[0] <= op["v"] <= limits[1]:
                return "limits: raw value outside od.min / od.max"
            if k == "poke" and op["route"] not in ROUTES:
                return "unknown poke route"
        elif k == "phys":
            x = _frac(op["x"])
            if x is None:
                return "physical value is not a finite number"
            q = x / f
            if abs(q) >= 1 << 53:
                return "phys: |x/f| >= 2^53 (beyond exact float integers)"
            t = phys_tol(op["x"], q)
            if _ceil(q - t) < lo_v or _floor(q + t) > hi_v:
                return "phys: nearest integer of x/f may lie outside the type's range"
        elif k == "refactor":
            f = _frac(op["factor"])
            if f is None or f == 0:
                return "factor is not a finite non-zero number"
        elif k == "bitdef":
            if not (0 <= op["lo"] <= op["hi"] < 32 and op["hi"] < _w(dt)):
                return "bit range outside the carrier type / not within 32 bits"
            names[op["name"]] = (op["lo"], op["hi"])
        elif k in ("bset", "bget"):
            if not (0 <= op["lo"] <= op["hi"] < 32 and op["hi"] < _w(dt)):
                return "bit range outside the carrier type / not within 32 bits"
            if op["sp"] == "int" and op["lo"] != op["hi"]:
                return "single bit number for a multi-bit range"
            if op["sp"] == "slice0" and op["lo"] != 0:
                return "slice without start for a range not starting at 0"
            if op["sp"] == "slice_rev" and op["lo"] == 0:
                return "descending slice down to bit 0 cannot be written as a slice"
            if op["sp"] == "list_rot" and op["hi"] - op["lo"] < 2:
                return "rotated list needs at least three bits"
            if op.get("name") is not None and (op["sp"] != "name"
                                               or names.get(op["name"]) != (op["lo"], op["hi"])):
                return "generator error: field name is not defined as this range at this point"
            if k == "bset" and not 0 <= op["v"] < (1 << (op["hi"] - op["lo"] + 1)):
                return "field value does not fit the field"
    return None


# ---- object dictionary of a case ----------------------------------------------------
def _bitdefs(case):
    defs = {}
    for lo, hi in case.get("decoys", []):
        defs[bit_name(lo, hi)] = list(range(lo, hi + 1))
    for op in case["ops"]:
        if op["op"] in ("bset", "bget") and op.get("name") is None:
            defs[bit_name(op["lo"], op["hi"])] = list(range(op["lo"], op["hi"] + 1))
    for name, lo, hi in case.get("bitnames", []):      # names that "bitdef" ops may move later
        defs[name] = list(range(lo, hi + 1))
    return defs


def od_spec(case):
    target = {"name": "v", "dt": case["dt"], "pdo": True, "factor": case["factor"], "unit": "u",
              "value_descriptions": {int(v): t for v, t in case["descs"]},
              "bit_definitions": _bitdefs(case)}
    if case.get("limits"):
        target["min"], target["max"] = case["limits"]
    spec = []
    for com, mp in ((0x1400, 0x1600), (0x1800, 0x1A00)):
        spec.append({"kind": "record", "index": com, "name": f"com{com:x}", "members": [
            {"sub": 0, "name": "n", "dt": rc.UNSIGNED8},
            {"sub": 1, "name": "cob", "dt": rc.UNSIGNED32},
            {"sub": 2, "name": "type", "dt": rc.UNSIGNED8}]})
        spec.append({"kind": "array", "index": mp, "name": f"map{mp:x}", "members": [
            {"sub": 0, "name": "n", "dt": rc.UNSIGNED8},
            {"sub": 1, "name": "m1", "dt": rc.UNSIGNED32}]})
    spec.append({"kind": "var", "index": PAD_INDEX, "name": "pad", "pdo": True,
                 "dt": PAD_DT.get(case.get("pad", 0), rc.UNSIGNED8)})
    spec.append({"kind": "var", "index": TAIL_INDEX, "name": "tail", "dt": rc.UNSIGNED8, "pdo": True})
    spec.append({"kind": "var", "index": PADBIT_INDEX, "name": "bitpad", "dt": rc.UNSIGNED8, "pdo": True})
    where = case.get("where", "var")
    if where == "var":
        spec.append(dict(target, kind="var", index=V_INDEX))
    else:
        spec.append({"kind": where, "index": V_INDEX, "name": "grp", "members": [
            {"sub": 0, "name": "n", "dt": rc.UNSIGNED8},
            dict(target, sub=case["sub"])]})
    return spec


def _addr(case):
    return V_INDEX, (0 if case.get("where", "var") == "var" else case["sub"])


# ---- carriers ------------------------------------------------------------------------
class _Local:
    def __init__(self, case):
        import canopen
        self.node = canopen.LocalNode(NODE, build_od(od_spec(case)))
        self.index, self.sub = _addr(case)
        self.accessor = self.node.sdo
        self._device(case, self.node)
        self._finish()

    def _device(self, case, device):
        """The device's application may refuse a write (write callback raising SdoAbortedError - the
        documented way for a LocalNode application).  Installed only for histories that use it."""
        self.refuse = [False]
        self.fired = False
        if not any(op.get("fault") for op in case["ops"]):
            return
        from canopen import SdoAbortedError

        def on_write(index, subindex, od, data, **kw):
            if self.refuse[0] and (index, subindex) == (self.index, self.sub):
                self.refuse[0] = False
                self.fired = True
                raise SdoAbortedError(REFUSE_CODE)
        device.add_write_callback(on_write)

    def arm(self, fault):
        """The next write of the entry under test fails in the given way (once)."""
        self.fired = False
        if fault != "refuse":
            raise ValueError(f"generator error: fault {fault} on this carrier")
        self.refuse[0] = True

    def disarm(self):
        self.refuse[0] = False

    def _finish(self):
        self.var = self.fresh()
        self.accessor[TAIL_INDEX].raw = 0x5A

    def fresh(self, accessor=None):
        """Another accessor object for the entry under test (a new one on every call)."""
        v = (accessor or self.accessor)[self.index]
        return v if self.sub == 0 else v[self.sub]

    def set_raw(self, var, value, data, via):
        """op "raw": through the variable under test (there is no reception on an SDO carrier)."""
        if via == "data":
            var.data = data
        else:
            var.raw = value

    def poke(self, route, value, data):
        """Change the stored value behind the back of the variable under test."""
        if route == "accessor":
            self.fresh().raw = value
        else:
            self.node.set_data(self.index, self.sub, data)

    def store(self):
        return self.node.data_store

    def observe(self, nbytes):
        ds = self.store()
        data = ds.get(self.index, {}).get(self.sub)
        rest = {(i, s): bytes(b) for i, subs in ds.items() for s, b in subs.items()
                if (i, s) != (self.index, self.sub)}
        ok = rest == {(TAIL_INDEX, 0): b"\x5a"}
        return (None if data is None else bytes(data)), (None if ok else f"other entries of the store: {rest}")


class _Remote(_Local):
    def __init__(self, case):
        import canopen
        self.hub = Hub()
        self.hub.raise_notify_errors = True
        self.cnet, self.cport = self.hub.attach("client")
        self.snet, self.sport = self.hub.attach("server")
        self.server = canopen.LocalNode(NODE, build_od(od_spec(case)))
        self.snet.add_node(self.server)
        self.node = canopen.RemoteNode(NODE, build_od(od_spec(case)))
        self.cnet.add_node(self.node)
        self.node.sdo.RESPONSE_TIMEOUT = 0.05
        self.index, self.sub = _addr(case)
        self.accessor = self.node.sdo
        self._device(case, self.server)
        self._finish()

    def arm(self, fault):
        self.fired = False
        if fault == "refuse":
            self.refuse[0] = True
            return
        # one frame of the download is lost on the bus (once): the client's initiate-download request
        # (ccs 1), or the server's confirmation of it (scs 3)
        can_id, cs = (0x600 + NODE, 1) if fault == "lost_req" else (0x580 + NODE, 3)

        def lose(fr, hub):
            if hub.filter is lose and fr.can_id == can_id and len(fr.data) == 8 and fr.data[0] >> 5 == cs:
                hub.filter = None
                self.fired = True
                return []
            return [fr]
        self.hub.filter = lose

    def disarm(self):
        self.refuse[0] = False
        self.hub.filter = None

    def poke(self, route, value, data):
        if route == "accessor":
            self.fresh().raw = value                       # another client object, SDO download
        elif route == "backdoor":
            self.fresh(self.server.sdo).raw = value        # the server's application
        else:
            self.server.set_data(self.index, self.sub, data)

    def store(self):
        return self.server.data_store


class _Pdo:
    def __init__(self, case):
        import canopen
        od = build_od(od_spec(case))
        side = case.get("pdo_side", "tpdo")
        self.rx = side.startswith("rx_")
        local = side in ("tpdo", "rx_rpdo")
        self.node = canopen.LocalNode(NODE, od) if local else canopen.RemoteNode(NODE, od)
        self.map = (self.node.tpdo if side.endswith("tpdo") else self.node.rpdo)[1]
        if self.rx:
            # receive direction: the map listens on a simulated bus; frames are delivered through
            # Network.notify with a bytearray payload, like python-can's listener thread does
            self.hub = Hub()
            self.hub.raise_notify_errors = True
            self.net, self.port = self.hub.attach("pdo")
            self.net.add_node(self.node)
            self.cob = (0x180 if side.endswith("tpdo") else 0x200) + NODE
        index, sub = _addr(case)
        self.nbits = _w(case["dt"])
        self.pad = case.get("pad", 0)
        self.padbits = case.get("padbits", 0)     # a sub-byte field in front: the variable starts off a byte boundary
        w = _w(case["dt"])
        if self.padbits:
            bitvar = self.map.add_variable(PADBIT_INDEX, 0, self.padbits)
        if self.pad:
            padvar = self.map.add_variable(PAD_INDEX)
        self.var = self.map.add_variable(index, sub)
        self.tail = 1 if self.padbits + self.pad * 8 + w + 8 <= 64 else 0
        if self.tail:
            tailvar = self.map.add_variable(TAIL_INDEX)
        self.bitpat = 0x55 & ((1 << self.padbits) - 1)
        if self.padbits:
            bitvar.raw = self.bitpat
        if self.pad:
            padvar.data = b"\xa5" * self.pad
        if self.tail:
            tailvar.data = b"\x5a"
        if self.rx:
            self.map.cob_id = self.cob
            self.map.enabled = True
            self.map.subscribe()

    def frame(self, pattern):
        """The whole PDO payload with `pattern` in the variable's place and the neighbours intact."""
        off = self.padbits + self.pad * 8
        low = self.bitpat | (int.from_bytes(b"\xa5" * self.pad, "little") << self.padbits)
        F = low | (pattern << off) | ((0x5A if self.tail else 0) << (off + self.nbits))
        return F.to_bytes((off + self.nbits + self.tail * 8 + 7) // 8, "little")

    def receive(self, pattern):
        from harness.simbus import Frame
        self.hub.inject(Frame(self.cob, self.frame(pattern)))

    def set_raw(self, var, value, data, via):
        if via == "rx" and self.rx:
            self.receive(int.from_bytes(data, "little"))
        elif via == "data":
            var.data = data
        else:
            var.raw = value

    def poke(self, route, value, data):
        pattern = int.from_bytes(data, "little")
        if route == "rx" and self.rx:
            self.receive(pattern)
        elif route == "backdoor":
            self.map.data = bytearray(self.frame(pattern))     # the buffer is replaced
        else:
            self.map.data[:] = self.frame(pattern)             # the buffer is changed in place

    def observe(self, nbytes):
        data = bytes(self.map.data)
        off = self.padbits + self.pad * 8
        want_len = (off + nbytes * 8 + self.tail * 8 + 7) // 8
        if len(data) != want_len:
            return None, f"PdoMap.data has {len(data)} bytes, the mapping has {want_len}"
        F = int.from_bytes(data, "little")
        mid = ((F >> off) & ((1 << (nbytes * 8)) - 1)).to_bytes(nbytes, "little")
        low, high = F & ((1 << off) - 1), F >> (off + nbytes * 8)
        want_low = self.bitpat | (int.from_bytes(b"\xa5" * self.pad, "little") << self.padbits)
        if low != want_low or high != (0x5A if self.tail else 0):
            return mid, f"neighbours in the PDO changed: {data.hex()}"
        return mid, None


CARRIERS = {"local": _Local, "remote": _Remote, "pdo": _Pdo}


def _call(fn):
    try:
        return True, fn()
    except Exception as e:  # judged by the caller
        return False, e


def _exc(e):
    return f"{type(e).__name__}: {e}"


# ---- one history on one carrier --------------------------------------------------------
def _run_on(cname, case, D):
    """Execute the history on one carrier; returns the list of observations."""
    dt = case["dt"]
    w = _w(dt)
    nbytes = w // 8
    f = _frac(case["factor"])
    table = {int(v): t for v, t in case["descs"]}
    by_text = {t: int(v) for v, t in case["descs"]}
    hold = case.get("hold", False)
    limits = case.get("limits")
    tname = rc.NAMES[dt]

    def bad(sig, detail):
        D.append(Discrepancy(f"C20/{sig}", f"[{cname} {tname} factor={case['factor']!r}] {detail}"))

    ok, car = _call(lambda: CARRIERS[cname](case))
    if not ok:
        bad("setup/raises", f"building the variable raised {_exc(car)}")
        return []
    var = car.var
    U = None                    # model: bit pattern of the stored raw value
    held = None
    pending = None              # (kind, lo, hi, v) of a bit assignment through a kept view that has just raised
    obs = []
    if case.get("sibling"):
        # another variable of the application (another object, another device profile) defines fields with the
        # SAME names at other bit positions and is used first: names are local to a variable
        from canopen.objectdictionary import ODVariable
        sib = ODVariable("sibling", 0x2F00)
        sib.data_type = rc.UNSIGNED32
        shift = case["sibling"]
        sdefs = {}
        for name, bits in _bitdefs(case).items():
            n = len(bits)
            slo = (min(bits) + shift) % (33 - n)         # the same width at another place within 32 bits
            sdefs[name] = list(range(slo, slo + n))
            sib.add_bit_definition(name, sdefs[name])
        for name, sbits in sdefs.items():
            mask = sum(1 << b for b in sbits)
            ok, got = _call(lambda: (sib.decode_bits(0xFFFFFFFF, name), sib.encode_bits(0, name, 1)))
            want = (mask >> min(sbits), 1 << min(sbits))
            if not ok or tuple(got) != want:
                bad("bits/sibling", f"variable 'sibling' field {name!r} = bits {sbits}: decode_bits(0xFFFFFFFF), "
                                    f"encode_bits(0, 1) give {_exc(got) if not ok else got}, want {want}")
                return []

    def stored(tag):
        """Observed pattern of the stored raw value (None + discrepancy when unusable)."""
        data, neigh = car.observe(nbytes)
        if neigh:
            bad("store/neighbour-changed", f"{tag}: {neigh}")
            return None
        if data is None or len(data) != nbytes:
            bad("store/size", f"{tag}: stored {None if data is None else data.hex()} for a {nbytes}-byte type")
            return None
        return int.from_bytes(data, "little")

    def expect_stored(tag, sig):
        got = stored(tag)
        if got is None:
            return False
        if got != U:
            bad(sig, f"{tag}: stored raw pattern {got:#0{nbytes * 2 + 2}x} want {U:#0{nbytes * 2 + 2}x}")
            return False
        return True

    def failed(tag):
        """A set op carried out while the device refuses / a frame of the download is lost has raised:
        nothing is demanded of that step.  The model takes whatever is stored now (nothing, or the
        whole value when only the confirmation was lost); the ops that follow are judged as ever."""
        nonlocal U
        got = stored(tag + " (assignment failed)")
        if got is None:
            return False
        U = got
        return True

    first = {"op": "raw", "v": case["init"]}
    if case.get("init_via"):
        first["via"] = case["init_via"]
    steps = [first] + list(case["ops"])
    for k, op in enumerate(steps):
        kind = op["op"]
        tag = f"step {k} {op}"
        ret = None
        api = op.get("api", "attr")
        noread = bool(op.get("noread"))
        fault = op.get("fault")
        if kind not in ("bset", "bget"):
            held = None
        if held is not None and pending is not None and (kind, op["lo"], op["hi"], op.get("v")) != pending:
            held = None         # after a failed assignment a kept view is only used to repeat that assignment
        pending = None

        def _set(fn):
            """Run an assigning call - under the step's fault, if it has one."""
            if not fault:
                return _call(fn)
            car.arm(fault)
            try:
                return _call(fn)
            finally:
                car.disarm()

        if kind == "raw":
            # via=data: the same value written as bytes through the variable's data attribute;
            # via=rx: it arrives in a frame (PDO carrier, receive direction; elsewhere like attr)
            raw_bytes = _pat(dt, op["v"]).to_bytes(nbytes, "little")
            ok, r = _set(lambda: car.set_raw(var, op["v"], raw_bytes, op.get("via")))
            if not ok and fault and car.fired:
                if not failed(tag):
                    break
                obs.append((k, U, "failed"))
                continue
            if not ok:
                bad("raw/raises", f"{tag}: {_exc(r)}")
                break
            U = _pat(dt, op["v"])
            if not expect_stored(tag, "raw/stored"):
                break

        elif kind == "poke":
            # the stored value changes behind the variable under test (harness action, not judged
            # beyond having arrived in the store)
            raw_bytes = _pat(dt, op["v"]).to_bytes(nbytes, "little")
            ok, r = _call(lambda: car.poke(op["route"], op["v"], raw_bytes))
            if not ok:
                bad("poke/raises", f"{tag}: {_exc(r)}")
                break
            U = _pat(dt, op["v"])
            if not expect_stored(tag, "poke/stored"):
                break

        elif kind == "refactor":
            # the application corrects the scaling factor of the variable (documented attribute)
            ok, r = _call(lambda: setattr(var.od, "factor", op["factor"]))
            if not ok:
                bad("phys/refactor-raises", f"{tag}: {_exc(r)}")
                break
            f = _frac(op["factor"])
            if not expect_stored(tag, "phys/refactor-wrote"):
                break
            ret = "factor"

        elif kind == "bitdef":
            # a field is defined, or moved, after the variable has been used (documented method)
            ok, r = _call(lambda: var.od.add_bit_definition(op["name"], list(range(op["lo"], op["hi"] + 1))))
            if not ok:
                bad("bits/define-raises", f"{tag}: {_exc(r)}")
                break
            if not expect_stored(tag, "bits/define-wrote"):
                break
            ret = "defined"

        elif kind == "phys_get":
            ok, y = _call((lambda: var.read(fmt="phys")) if api == "rw" else (lambda: var.phys))
            if not ok:
                bad("phys/get-raises", f"{tag}: {_exc(y)}")
                break
            r = _val(dt, U)
            yq = _frac(y)
            if yq is None or abs(yq - r * f) > abs(f) / 2 + prod_slack(r, f):
                bad("phys/read", f"{tag}: stored raw {r}, factor {float(f)!r}: read {y!r}"
                                 + ("" if yq is None else f" ({float(abs(yq - r * f) / abs(f))!r} steps off)"))
                break
            if not expect_stored(tag, "phys/read-wrote"):
                break
            ret = y

        elif kind == "phys":
            x = op["x"]
            xq = _frac(x)
            q = xq / f
            tol = phys_tol(x, q)
            outside = bool(limits) and not (limits[0] <= _ceil(q - tol) and _floor(q + tol) <= limits[1])
            if api == "rw":
                ok, r = _set(lambda: var.write(x, fmt="phys"))
            else:
                ok, r = _set(lambda: setattr(var, "phys", x))
            if not ok and fault and car.fired:
                if not failed(tag):
                    break
                obs.append((k, U, "failed"))
                continue
            if not ok and outside:
                # beyond od.min / od.max: refusing is as good as storing, as long as nothing is written
                if not expect_stored(tag + " (refused, outside min/max)", "phys/refused-wrote"):
                    break
                obs.append((k, U, "refused"))
                continue
            if not ok:
                bad("phys/set-raises", f"{tag}: x/f = {float(q)!r}: {_exc(r)}")
                break
            got = stored(tag)
            if got is None:
                break
            r = _val(dt, got)
            if abs(r - q) > tol:
                bad("phys/raw-not-nearest", f"{tag}: stored raw {r}, x/f = {float(q)!r} "
                                            f"(off by {float(abs(r - q))!r} steps)")
                break
            U = got
            if not noread:
                ok, y = _call((lambda: var.read(fmt="phys")) if api == "rw" else (lambda: var.phys))
                if not ok:
                    bad("phys/get-raises", f"{tag}: {_exc(y)}")
                    break
                yq = _frac(y)
                if yq is None:
                    bad("phys/readback", f"{tag}: read back {y!r}")
                    break
                allowed = abs(f) * tol + prod_slack(r, f)
                if abs(yq - xq) > allowed:
                    bad("phys/readback", f"{tag}: read back {y!r} for request {x!r} (raw {r}); "
                                         f"differs by {float(abs(yq - xq) / abs(f))!r} steps")
                    break
                ret = y

        elif kind == "desc":
            text = op["text"]
            if api == "rw":
                ok, r = _set(lambda: var.write(text, fmt="desc"))
            else:
                ok, r = _set(lambda: setattr(var, "desc", text))
            if not ok and fault and car.fired and text in by_text:
                if not failed(tag):
                    break
                obs.append((k, U, "failed"))
                continue
            if text in by_text:
                if not ok:
                    bad("desc/set-raises", f"{tag}: {_exc(r)}")
                    break
                U = _pat(dt, by_text[text])
                if not expect_stored(tag + f" (names {by_text[text]})", "desc/wrong-value"):
                    break
                if not noread:
                    ok, d = _call((lambda: var.read(fmt="desc")) if api == "rw" else (lambda: var.desc))
                    if not ok:
                        bad("desc/get-raises", f"{tag}: {_exc(d)}")
                        break
                    if d != text:
                        bad("desc/read", f"{tag}: reading returned {d!r}")
                        break
                    ret = d
            else:
                if ok:
                    bad("desc/unknown-accepted", f"{tag}: text is not in the table {sorted(by_text)} "
                                                 f"but the assignment succeeded")
                    break
                if not expect_stored(tag + " (refused)", "desc/unknown-wrote"):
                    break
                ret = "refused"

        elif kind == "redesc":
            # the application edits the table after it has been used: the text of a described value is
            # replaced, or a new entry is added (ODVariable.add_value_description, the documented way)
            v, text = int(op["value"]), op["text"]
            if text in by_text and by_text[text] != v:
                raise ValueError("generator error: description texts must stay distinct")
            ok, r = _call(lambda: var.od.add_value_description(v, text))
            if not ok:
                bad("desc/edit-raises", f"{tag}: {_exc(r)}")
                break
            if v in table:
                by_text.pop(table[v], None)
            table[v] = text
            by_text[text] = v
            ret = "edited"

        elif kind == "desc_get":
            ok, d = _call((lambda: var.read(fmt="desc")) if api == "rw" else (lambda: var.desc))
            cur = _val(dt, U)
            if cur in table:
                if not ok:
                    bad("desc/get-raises", f"{tag}: current value {cur}: {_exc(d)}")
                    break
                if d != table[cur]:
                    bad("desc/read", f"{tag}: current value {cur} is {table[cur]!r}, reading returned {d!r}")
                    break
                ret = d
            else:
                if ok:
                    bad("desc/read-undescribed", f"{tag}: current value {cur} has no description, "
                                                 f"reading returned {d!r}")
                    break
                ret = "refused"
            if not expect_stored(tag, "desc/read-wrote"):
                break

        elif kind in ("bset", "bget"):
            lo, hi, sp = op["lo"], op["hi"], op["sp"]
            n = hi - lo + 1
            fmask = (1 << n) - 1
            if hold and held is not None:
                bits = held
            else:
                ok, bits = _call(lambda: var.bits)
                if not ok:
                    bad(f"bits/{sp}/raises", f"{tag}: var.bits: {_exc(bits)}")
                    break
                held = bits if hold else None
            if kind == "bset":
                v = op["v"]
                ok, r = _set(lambda: bits.__setitem__(_key(op), v))
                if not ok and fault and car.fired:
                    if not failed(tag):
                        break
                    pending = ("bset", lo, hi, v)
                    obs.append((k, U, "failed"))
                    continue
                if not ok:
                    bad(f"bits/{sp}/set-raises", f"{tag}: {_exc(r)}")
                    break
                U = (U & ~(fmask << lo)) | (v << lo)
                if not expect_stored(tag, f"bits/{sp}/set"):
                    break
                if noread:
                    obs.append((k, U, None))
                    continue
                want = v
                reader = bits if hold else None
            else:
                want = (U >> lo) & fmask
                reader = bits
            if reader is None:
                ok, reader = _call(lambda: var.bits)
                if not ok:
                    bad(f"bits/{sp}/raises", f"{tag}: var.bits: {_exc(reader)}")
                    break
            ok, g = _call(lambda: reader[_key(op)])
            if not ok:
                bad(f"bits/{sp}/get-raises", f"{tag}: {_exc(g)}")
                break
            if not isinstance(g, int) or g != want:
                bad(f"bits/{sp}/get", f"{tag}: field reads {g!r} want {want} "
                                      f"(raw pattern {U:#x})")
                break
            if not expect_stored(tag + " (after read)", f"bits/{sp}/read-wrote"):
                break
            ret = g
        else:
            raise ValueError(kind)
        obs.append((k, U, ret))
    if cname == "remote" and not D:
        errs = car.sport.notify_errors + car.cport.notify_errors
        if errs:
            bad("remote/notify-error", f"exception out of Network.notify: {_exc(errs[0][1])}")
    return obs


# ---- classification ------------------------------------------------------------------------
def _fclass(factor):
    a = abs(factor)
    sign = "neg" if factor < 0 else "pos"
    if a == 1:
        return f"f1/{sign}"
    if a < 1e-3:
        mag = "<1e-3"
    elif a < 1:
        mag = "1e-3..1"
    elif a <= 1e3:
        mag = "1..1e3"
    else:
        mag = ">1e3"
    return f"f{mag}/{sign}"


def _nclass(n):
    if n == 1:
        return "w1"
    if n <= 8:
        return "w2-8"
    return "w9-32"


def _tclass(dt):
    if dt == rc.UNSIGNED32:
        return "UNSIGNED32"
    return "signed" if dt in rc.SIGNED else "unsigned"


def classify(case):
    kinds = {"raw": 0, "phys": 0, "desc": 0, "bits": 0}
    nontrivial = False
    first_bit = None
    signbit = False
    tags = set()
    factor = case["factor"]
    if case.get("limits"):
        tags.add("limits")
    rx_side = case.get("pdo_side", "tpdo").startswith("rx_") and "pdo" in case["carriers"]
    if rx_side and case.get("init_via") == "rx":
        tags.add("rx")
    for op in case["ops"]:
        k = op["op"]
        if op.get("noread"):
            tags.add("noread")
        if op.get("fault"):
            tags.add("fault-" + op["fault"])
        if rx_side and (op.get("via") == "rx" or op.get("route") == "rx"):
            tags.add("rx")
        if k in ("phys", "phys_get"):
            kinds["phys"] += 1
            nontrivial |= factor != 1
        elif k == "refactor":
            kinds["phys"] += 1
            factor = op["factor"]
            tags.add("refactor")
        elif k in ("desc", "desc_get", "redesc"):
            kinds["desc"] += 1
            nontrivial |= len(case["descs"]) >= 2
        elif k in ("bset", "bget"):
            kinds["bits"] += 1
            first_bit = first_bit or op
            nontrivial |= op["lo"] > 0 and op["hi"] > op["lo"]
            signbit |= op["hi"] >= _usable(case["dt"])
        elif k == "bitdef":
            kinds["bits"] += 1
            tags.add("bitdef")
        elif k == "poke":
            kinds["raw"] += 1
            tags.add("poke-" + op["route"])
        else:
            kinds["raw"] += 1
    used = [k for k in ("phys", "desc", "bits") if kinds[k]]
    dt = case["dt"]
    sgn = "signed" if dt in rc.SIGNED else "unsigned"
    if len(used) > 1:
        klass = f"mixed/{'+'.join(used)}/{len(case['carriers'])}-carrier"
        tags = {t.split("-")[0] for t in tags}
    elif used == ["phys"]:
        klass = f"phys/{sgn}/{_fclass(case['factor'])}"
    elif used == ["desc"]:
        n = len(case["descs"])
        klass = f"desc/{sgn}/n{n if n < 3 else ('3-9' if n < 10 else '10-20')}"
    elif used == ["bits"]:
        sps = {op["sp"] for op in case["ops"] if op["op"] in ("bset", "bget")}
        sp = first_bit["sp"] if first_bit and len(sps) <= 2 else "several"
        if signbit:
            klass = f"bits/{sp}/read-incl-sign-bit"
        else:
            n = first_bit["hi"] - first_bit["lo"] + 1 if first_bit else 1
            klass = f"bits/{sp}/{_tclass(dt)}/{_nclass(n)}"
    else:
        klass = f"raw-only/{sgn}"
    if tags:
        klass += "|" + ",".join(sorted(tags))
    return nontrivial, klass


def run_case(case) -> Outcome:
    reason = domain(case)
    if reason:
        return Outcome(excluded=reason)
    nontrivial, klass = classify(case)
    D = []
    seen = {}
    for cname in case["carriers"]:
        obs = _run_on(cname, case, D)
        if D:
            return Outcome(nontrivial, klass, D)
        seen[cname] = obs
    names = list(seen)
    for other in ([] if case.get("limits") else names[1:]):
        if seen[other] != seen[names[0]]:
            diff = next(((a, b) for a, b in zip(seen[names[0]], seen[other]) if a != b), None)
            D.append(Discrepancy("C20/carriers-differ",
                                 f"{names[0]} and {other} disagree: (step, pattern, returned) {diff}"))
            break
    return Outcome(nontrivial, klass, D)


# ---- generation -------------------------------------------------------------------------------
TEXT_POOL = ["Off", "On", "ON", "on", "On ", " On", "Onn", "O", "Error", "Error 1", "Error 10", "error",
             "0", "1", "-1", "Ready to switch on", "Switched on", "Switch on disabled", "Fault",
             "Fault reaction active", "Quick stop", "n/a", "a,b", "x=1", "[3]", "None", "True",
             "µm", "Über", "A" * 40]


def _mix(*xs):
    """Deterministic 64-bit scrambler (splitmix64 steps) - no RNG, no clock."""
    z = 0x9E3779B97F4A7C15
    for x in xs:
        z = (z + (x + 1) * 0xBF58476D1CE4E5B9) & 0xFFFFFFFFFFFFFFFF
        z ^= z >> 30
        z = (z * 0x94D049BB133111EB) & 0xFFFFFFFFFFFFFFFF
        z ^= z >> 27
    return z


def default_descs(dt, n=4, salt=0):
    """n distinct in-range values (range ends first) with distinct tricky texts."""
    lo, hi = rc.int_range(dt)
    vals = []
    for v in (0, 1, hi, lo, 3, hi - 1, lo + 1, 2, 7, 100, hi // 2, 5, 6, 8, 9, 10, 11, 12, 13, 14, 15, 16, 17):
        if lo <= v <= hi and v not in vals:
            vals.append(v)
    vals = vals[:n]
    return [[v, TEXT_POOL[(i + salt) % len(TEXT_POOL)]] for i, v in enumerate(vals)]


def base_case(dt, ops, init=0, factor=0.1, descs=None, salt=0, **kw):
    case = {"dt": dt, "factor": factor, "descs": descs if descs is not None else default_descs(dt, 4, salt),
            "init": init, "ops": ops, "carriers": ["local", "remote", "pdo"],
            "where": ("var", "record", "array")[salt % 3], "sub": 1 + salt % 254,
            "pdo_side": PDO_SIDES[(salt // 3) % 4], "hold": False, "decoys": [],
            "init_via": (None, "rx", "data", "rx")[(salt // 2) % 4]}
    room = (64 - _w(dt)) // 8
    case["pad"] = min(room, (salt // 2) % 4)
    if 64 - _w(dt) - 8 * case["pad"] >= 8:
        case["padbits"] = (0, 1, 0, 3, 7, 0, 5)[salt % 7]
    case.update(kw)
    return case


def bit_cases(thorough):
    i = 0
    for lo in range(32):
        for hi in range(lo, 32):
            n = hi - lo + 1
            ones = (1 << n) - 1
            fits = [dt for dt in INT_TYPES if hi < _usable(dt)]
            spell = ["list", "slice", "name", "slice1"]
            if lo == hi:
                spell.append("int")
            if lo == 0:
                spell.append("slice0")
            if n > 1:
                spell.append("list_rev")
            if n > 2:
                spell.append("list_rot")
            if lo > 0:
                spell.append("slice_rev")
            for sp in spell:
                if thorough:
                    types = fits
                else:
                    types = [rc.UNSIGNED32]
                    if sp in ("list", "slice", "name", "int"):
                        alt = fits[i % len(fits)]
                        if alt != rc.UNSIGNED32:
                            types.append(alt)
                for dt in types:
                    i += 1
                    full = (1 << _w(dt)) - 1
                    u0 = _mix(lo, hi, i) & full
                    rnd = _mix(hi, lo, i, 7) & ones
                    alt_v = 0x55555555 & ones
                    other = "list" if sp != "list" else "slice"
                    ops = [
                        {"op": "bget", "sp": sp, "lo": lo, "hi": hi},
                        {"op": "bset", "sp": sp, "lo": lo, "hi": hi, "v": ones},
                        {"op": "bset", "sp": sp, "lo": lo, "hi": hi, "v": 0},
                        dict({"op": "raw", "v": _val(dt, ~u0 & full)}, **({"via": "rx"} if i % 2 else {})),
                        {"op": "bset", "sp": sp, "lo": lo, "hi": hi, "v": rnd},
                        {"op": "bget", "sp": other, "lo": lo, "hi": hi},
                        {"op": "bset", "sp": sp, "lo": lo, "hi": hi, "v": alt_v ^ (1 if rnd == alt_v else 0)},
                    ]
                    decoys = [[0, _usable(dt) - 1 if _usable(dt) <= 32 else 31]]
                    if lo > 0:
                        decoys.append([lo - 1, hi])
                    if hi + 1 < min(32, _usable(dt)):
                        decoys.append([lo, hi + 1])
                    yield base_case(dt, ops, init=_val(dt, u0), salt=i, hold=(i % 5 == 0), decoys=decoys,
                                    factor=(0.1, 1, -2, 0.25)[i % 4],
                                    sibling=(0, 0, 1, 7)[i % 4] if sp == "name" else 0)


def signbit_cases():
    """Signed types of <= 32 bits: fields that include the sign bit.  Reading them is in the
    domain (negative raw values included); assigning is excluded by construction (counted)."""
    i = 0
    for dt in (rc.INTEGER8, rc.INTEGER16, rc.INTEGER24, rc.INTEGER32):
        w = _w(dt)
        full = (1 << w) - 1
        for lo in range(w):
            hi = w - 1
            spell = ["list", "slice", "name", "slice1"] + (["int"] if lo == hi else []) \
                + (["slice0"] if lo == 0 else []) + (["list_rev"] if hi > lo else [])
            for sp in spell:
                i += 1
                u0 = (_mix(lo, w, i) & full) | (1 << (w - 1))
                ops = [{"op": "bget", "sp": sp, "lo": lo, "hi": hi},
                       dict({"op": "raw", "v": _val(dt, ~u0 & full)},
                            **({"via": "data"} if i % 2 else {"via": "rx"} if i % 4 == 0 else {})),
                       {"op": "bget", "sp": sp, "lo": lo, "hi": hi},
                       {"op": "raw", "v": -1},
                       {"op": "bget", "sp": sp, "lo": lo, "hi": hi}]
                yield base_case(dt, ops, init=_val(dt, u0), salt=i, hold=False, factor=(0.1, 1, -2, 0.25)[i % 4])
        # assigning fields that include the sign bit (repaired in /repo by commit "bit fields that
        # include the sign bit ..."): from raw 0, from -1 and from a mixed pattern, every spelling
        for lo in sorted({w - 1, w - 2, w - 4, w // 2, 1, 0}):
            hi = w - 1
            n = hi - lo + 1
            spell = ["list", "slice", "name"] + (["int"] if lo == hi else []) + (["slice0"] if lo == 0 else [])
            for sp in spell:
                for init in (0, -1, _val(dt, _mix(lo, w, 7) & full)):
                    for v in sorted({(1 << n) - 1, 0, 1 << (n - 1), (1 << (n - 1)) - 1, _mix(lo, n, 3) & ((1 << n) - 1)}):
                        i += 1
                        yield base_case(dt, [{"op": "bset", "sp": sp, "lo": lo, "hi": hi, "v": v},
                                             {"op": "bget", "sp": sp, "lo": lo, "hi": hi}],
                                        init=init, salt=i, hold=False)


def factors():
    out = [1, -1, 2, 3, 4, -2, 8, 16, -7, 0.5, 0.25, -0.125, 1 / 1024, 1.5, -2.5, 1 / 3, 0.7, -0.3]
    for e in range(-6, 7):
        for m in (1, 2, 5, 7):
            q = Fraction(m) * Fraction(10) ** e
            pos = int(q) if q.denominator == 1 else float(q)
            out.append(pos)
            out.append(-float(q))
    seen = []
    for f in out:
        if not any(f == g and type(f) is type(g) for g in seen):
            seen.append(f)
    return seen


PHYS_DELTAS = [Fraction(0), Fraction(1, 4), Fraction(-1, 4), Fraction(49, 100), Fraction(-49, 100),
               Fraction(4999, 10000), Fraction(-4999, 10000), Fraction(1, 2), Fraction(-1, 2), Fraction(1, 3),
               Fraction(-2, 5), Fraction(1, 1000)]


def raw_targets(dt):
    lo, hi = rc.int_range(dt)
    s = {lo, lo + 1, hi - 1, hi, 0, 1, 2, 3, -1, -2, hi // 2, hi // 3, lo // 2, 100, -100, 12345, -999}
    for k in (7, 8, 15, 16, 23, 24, 31, 32, 39, 47, 52):
        for d in (-1, 0, 1):
            s.add((1 << k) + d)
            s.add(-(1 << k) + d)
    lim = (1 << 53) - 2
    return sorted(v for v in s if lo <= v <= hi and abs(v) <= lim)


def phys_request(dt, factor, r, delta, as_int=True):
    """The float (or int) closest to (r + delta) * factor; None when outside the domain."""
    lo, hi = rc.int_range(dt)
    if r == lo and delta < 0 and abs(delta) >= Fraction(1, 2):
        delta = -delta
    if r == hi and delta >= Fraction(1, 2):
        delta = -delta
    xq = (r + delta) * Fraction(factor)
    x = int(xq) if (xq.denominator == 1 and as_int) else float(xq)
    probe = {"dt": dt, "factor": factor, "init": 0, "ops": [{"op": "phys", "x": x}]}
    return x if domain(probe) is None else None


def phys_cases(thorough):
    i = 0
    for fi, factor in enumerate(factors()):
        types = INT_TYPES if thorough else [INT_TYPES[(fi * 5 + j * 3) % len(INT_TYPES)] for j in range(5)]
        for dt in dict.fromkeys(types):
            targets = raw_targets(dt)
            ops = []
            for j, r in enumerate(targets):
                if not thorough and j % 3 != fi % 3 and r not in rc.int_range(dt):
                    continue
                nd = 4 if thorough else 2
                for d in range(nd):
                    delta = PHYS_DELTAS[(j * nd + d + fi) % len(PHYS_DELTAS)]
                    x = phys_request(dt, factor, r, delta, as_int=(j + d) % 2 == 0)
                    if x is None:
                        continue
                    ops.append({"op": "phys", "x": x, "api": "rw" if (j + d + fi) % 4 == 0 else "attr"})
            for c in range(0, len(ops), 6):
                i += 1
                yield base_case(dt, ops[c:c + 6], init=targets[c % len(targets)], factor=factor, salt=i)
    # requests beyond exact float integers: generated on purpose, excluded by construction (counted)
    for dt in (rc.UNSIGNED64, rc.INTEGER64, rc.UNSIGNED56):
        lo, hi = rc.int_range(dt)
        for x in (hi, (1 << 53) + 1, float(1 << 54)):
            if x <= hi:
                yield base_case(dt, [{"op": "phys", "x": x}], factor=1, salt=3)


def desc_cases(thorough):
    i = 0
    for n in range(1, 21):
        for dt in INT_TYPES:
            if not thorough and (n + INT_TYPES.index(dt)) % 2 and n not in (1, 2, 20):
                continue
            i += 1
            descs = default_descs(dt, n, salt=i)
            n = len(descs)          # 8-bit types have enough values, kept for safety
            texts = [t for _, t in descs]
            values = [v for v, _ in descs]
            lo, hi = rc.int_range(dt)
            unknown_texts = [t for t in (texts[0] + "x", texts[0][:-1] or "q", texts[0].swapcase(), "nope",
                                         texts[-1] + " ", str(values[0])) if t not in texts and t]
            undescribed = [v for v in (4, hi - 2, lo + 2, 55) if lo <= v <= hi and v not in values]
            ops = []
            for j, (v, t) in enumerate(descs):
                api = "rw" if (i + j) % 3 == 0 else "attr"
                ops.append({"op": "desc", "text": t, "api": api})
                other = values[(j * 7 + 3) % n]
                ops.append({"op": "raw", "v": other})
                ops.append({"op": "desc_get", "api": api})
            for j, t in enumerate(unknown_texts):
                ops.append({"op": "desc", "text": t, "api": "rw" if j % 2 else "attr"})
            for v in undescribed:
                ops.append({"op": "raw", "v": v})
                ops.append({"op": "desc_get"})
            for c in range(0, len(ops), 8):
                yield base_case(dt, ops[c:c + 8], init=values[(c // 8) % n], descs=descs, salt=i + c,
                                factor=(1, 0.5, -3, 1e-3)[i % 4])
            # the table is edited after it was used: the new text names the value, the old one nothing
            j = i % n
            yield base_case(dt, [{"op": "desc", "text": texts[j]},
                                 {"op": "redesc", "value": values[j], "text": texts[j] + " (new)"},
                                 {"op": "desc_get"},
                                 {"op": "desc", "text": texts[(j + 1) % n], "api": "rw"},
                                 {"op": "desc", "text": texts[j] + " (new)"},
                                 {"op": "desc", "text": texts[j]}] if n > 1 else
                            [{"op": "desc", "text": texts[0]},
                             {"op": "redesc", "value": values[0], "text": texts[0] + " (new)"},
                             {"op": "desc", "text": texts[0] + " (new)"}, {"op": "desc", "text": texts[0]}],
                            init=values[0], descs=descs, salt=i, factor=1)


def _chunks(ops, n):
    return [ops[c:c + n] for c in range(0, len(ops), n)]


def exact_phys_cases(thorough):
    """Requests that are exact multiples of the factor with quotients up to 2^53: x and x/f are exact
    doubles, the stored raw value must be exactly x/f (no float slack applies)."""
    i = 0
    big = [dt for dt in INT_TYPES if rc.int_range(dt)[1] >= (1 << 53) - 1]
    facs = [1, -1, 1.0, 2, -2, 4, 0.5, -0.5, 0.25, -0.125, 1 / 1024, 1024, 8.0]
    for dt in big:
        lo_v, hi_v = rc.int_range(dt)
        for fi, factor in enumerate(facs):
            rs = [(1 << 52) + 1, (1 << 52) + 3, (1 << 53) - 1, (1 << 53) - 3, (1 << 52) + 2, (1 << 51) + 1,
                  (1 << 52) - 1, (1 << 53) - 2, (1 << 52) | (_mix(dt, fi) & ((1 << 52) - 1)) | 1,
                  (1 << 52) | (_mix(fi, dt, 3) & ((1 << 52) - 1)) | 1]
            if not thorough:
                rs = rs[fi % 2::2] + rs[:1]
            ops = []
            for j, r0 in enumerate(rs):
                for r in ((r0, -r0) if lo_v < 0 else (r0,)):
                    xq = Fraction(r) * Fraction(factor)
                    x = int(xq) if (xq.denominator == 1 and (j + fi) % 2 == 0) else float(xq)
                    if Fraction(x) != xq:
                        continue
                    op = {"op": "phys", "x": x, "api": "rw" if (j + fi) % 3 == 0 else "attr"}
                    if domain({"dt": dt, "factor": factor, "init": 0, "ops": [op]}) is None:
                        ops.append(op)
            for chunk in _chunks(ops, 6):
                i += 1
                yield base_case(dt, chunk, init=0, factor=factor, salt=i)


def limits_cases(thorough):
    """od.min / od.max are set on the variable: requests inside, at and beyond the limits."""
    i = 0
    for ti, dt in enumerate(INT_TYPES):
        lo_v, hi_v = rc.int_range(dt)
        spans = [(0, 100), (10, 120)] if lo_v == 0 else [(-100, 100), (-5, 50)]
        for si, (mn, mx) in enumerate(spans):
            for fi, factor in enumerate((0.1, 1, -0.5, 3, 1e-3, 0.25)):
                if not thorough and (ti + si + fi) % 3:
                    continue
                ops = []
                for j, r in enumerate((mx + 100, mn - 20, mn - 1, mn, (mn + mx) // 2, mx, mx + 1, mx + 27, mn + 1)):
                    if not lo_v <= r <= hi_v:
                        continue
                    x = phys_request(dt, factor, r, (Fraction(0), Fraction(1, 4), Fraction(-2, 5))[(j + fi) % 3],
                                     as_int=j % 2 == 0)
                    if x is None:
                        continue
                    ops.append({"op": "phys", "x": x, "api": "rw" if (j + fi) % 4 == 0 else "attr"})
                    if j % 4 == 3:
                        ops.append({"op": "phys_get"})
                for chunk in _chunks(ops, 6):
                    i += 1
                    yield base_case(dt, chunk, init=mn + (i % (mx - mn + 1)), factor=factor, salt=i, limits=[mn, mx])


def poke_cases(thorough):
    """The stored value is changed out of band between two operations through the variable under test:
    the next read must show the stored value, a set repeated with the identical argument must write."""
    i = 0
    for ti, dt in enumerate(INT_TYPES):
        lo_v, hi_v = rc.int_range(dt)
        full = (1 << _w(dt)) - 1
        usable = min(32, _usable(dt))
        for rep in range(8 if thorough else 1):
            for ri, route in enumerate(ROUTES):
                i += 1
                descs = default_descs(dt, 4, salt=i)
                vals = [v for v, _ in descs]
                texts = [t for _, t in descs]
                a, b = (i + rep) % 4, (i + rep + 1 + ri) % 4
                if a == b:
                    b = (a + 1) % 4
                api = "rw" if i % 3 == 0 else "attr"
                # -- descriptions
                yield base_case(dt, [{"op": "desc", "text": texts[a], "noread": True, "api": api},
                                     {"op": "poke", "v": vals[b], "route": route},
                                     {"op": "desc_get", "api": api},
                                     {"op": "desc", "text": texts[a]},
                                     {"op": "poke", "v": vals[b], "route": route},
                                     {"op": "desc", "text": texts[a], "api": api},
                                     {"op": "poke", "v": 4, "route": route},
                                     {"op": "desc_get"}],
                                init=vals[b], descs=descs, salt=i, factor=(1, 0.5, -3, 1e-3)[i % 4])
                # -- raw writes through the variable, reads through every view
                lo = (i * 5) % max(1, usable - 3)
                hi = min(usable - 1, lo + 1 + i % 3)
                yield base_case(dt, [{"op": "raw", "v": vals[a]},
                                     {"op": "poke", "v": vals[b], "route": route},
                                     {"op": "desc_get", "api": api},
                                     {"op": "raw", "v": vals[a]},
                                     {"op": "poke", "v": _val(dt, _mix(i, 5) & full), "route": route},
                                     {"op": "bget", "sp": ("list", "slice", "name")[i % 3], "lo": lo, "hi": hi},
                                     dict({"op": "raw", "v": vals[a]}, **({"via": "data"} if i % 2 else {})),
                                     {"op": "phys_get"}],
                                init=vals[b], descs=descs, salt=i + 1, factor=(0.1, -2, 0.25, 3)[i % 4])
                # -- physical values
                factor = (0.1, -2, 0.25, 3, 1, 1e-3)[(i + rep) % 6]
                x1 = phys_request(dt, factor, 50 + rep, Fraction(1, 4), as_int=False)
                if x1 is not None:
                    yield base_case(dt, [{"op": "phys", "x": x1, "noread": True, "api": api},
                                         {"op": "poke", "v": 7, "route": route},
                                         {"op": "phys_get", "api": api},
                                         {"op": "phys", "x": x1},
                                         {"op": "poke", "v": 7, "route": route},
                                         {"op": "phys", "x": x1, "noread": True},
                                         {"op": "phys_get"},
                                         {"op": "poke", "v": hi_v if i % 2 else lo_v, "route": route},
                                         {"op": "phys_get"}],
                                    init=3, salt=i + 2, factor=factor)
                # -- bit fields: the poke either changes everything, or only the field just assigned
                # (so that the repeated assignment produces the very bytes written before)
                sp = ("list", "slice", "name", "slice1", "list_rev")[i % 5]
                n = hi - lo + 1
                fm = ((1 << n) - 1) << lo
                u0 = _mix(i, lo, hi) & full
                v = _mix(i, 9) & ((1 << n) - 1)
                after = (u0 & ~fm) | (v << lo)
                yield base_case(dt, [{"op": "bset", "sp": sp, "lo": lo, "hi": hi, "v": v, "noread": True},
                                     {"op": "poke", "v": _val(dt, after ^ fm), "route": route},
                                     {"op": "bget", "sp": sp, "lo": lo, "hi": hi},
                                     {"op": "bset", "sp": sp, "lo": lo, "hi": hi, "v": v},
                                     {"op": "poke", "v": _val(dt, ~after & full), "route": route},
                                     {"op": "bset", "sp": sp, "lo": lo, "hi": hi, "v": v, "noread": True},
                                     {"op": "poke", "v": _val(dt, after ^ fm), "route": route},
                                     {"op": "bget", "sp": "list", "lo": lo, "hi": hi}],
                                init=_val(dt, u0), salt=i + 3, factor=(0.1, 1, -2, 0.25)[i % 4], hold=(i % 4 == 0))


REFACTOR_PAIRS = [(0.1, 0.01), (0.01, 0.1), (1, 0.5), (2, -2), (0.25, 3), (1e-3, 1e3), (-0.5, 0.5), (7, 1),
                  (1, 10), (0.1, 1), (1 / 3, 3), (5, 0.2)]


def refactor_cases(thorough):
    """The scaling factor of the variable is assigned after (or before) its first use."""
    i = 0
    for pi, (f1, f2) in enumerate(REFACTOR_PAIRS):
        types = INT_TYPES if thorough else [INT_TYPES[(pi * 3 + j * 5) % len(INT_TYPES)] for j in range(3)]
        for dt in dict.fromkeys(types):
            i += 1

            def req(factor, r, delta=Fraction(0), prefer=None):
                if prefer is not None and domain({"dt": dt, "factor": factor, "init": 0,
                                                  "ops": [{"op": "phys", "x": prefer}]}) is None:
                    return prefer
                return phys_request(dt, factor, r, delta, as_int=False)

            x1 = req(f1, 50, Fraction(1, 4))
            x2 = req(f2, 41, Fraction(-1, 4), prefer=x1)      # the very same request where it fits
            x3 = req(f1, 17, Fraction(0), prefer=x2)
            if None in (x1, x2, x3):
                continue
            api = "rw" if i % 3 == 0 else "attr"
            yield base_case(dt, [{"op": "phys", "x": x1, "api": api},
                                 {"op": "refactor", "factor": f2},
                                 {"op": "phys", "x": x2, "api": api},
                                 {"op": "phys_get"},
                                 {"op": "refactor", "factor": f1},
                                 {"op": "phys_get", "api": api},
                                 {"op": "phys", "x": x3},
                                 {"op": "phys", "x": x1, "noread": True}],
                            init=5, factor=f1, salt=i)
            yield base_case(dt, [{"op": "refactor", "factor": f2},        # corrected before the first use
                                 {"op": "phys", "x": x2},
                                 {"op": "poke", "v": 9, "route": ROUTES[i % 3]},
                                 {"op": "phys_get"},
                                 {"op": "refactor", "factor": f1},
                                 {"op": "phys", "x": x1, "api": api}],
                            init=5, factor=f1, salt=i + 1)


def bitdef_cases(thorough):
    """add_bit_definition after the variable (and its named fields) have been used: a new name, an
    existing name moved elsewhere; ops by name follow the definition that is current then."""
    i = 0
    for ti, dt in enumerate(INT_TYPES):
        usable = min(32, _usable(dt))
        full = (1 << _w(dt)) - 1
        for k in range(24 if thorough else 3):
            if not thorough and dt != rc.UNSIGNED32 and (ti + k) % 2:
                continue
            i += 1
            n1, n2, n3 = 1 + (i % 3), 1 + ((i // 2) % 4), 1 + ((i // 3) % 3)
            lo1 = (i * 3) % (usable - n1 + 1)
            lo2 = (i * 5 + 2) % (usable - n2 + 1)
            lo3 = (lo1 + n1 + i) % (usable - n3 + 1)
            A, B = ("A", "B") if i % 2 else ("ready", "fault code")
            r1, r2, r3 = (lo1, lo1 + n1 - 1), (lo2, lo2 + n2 - 1), (lo3, lo3 + n3 - 1)

            def named(kind, name, r, v=None, **kw):
                op = dict({"op": kind, "sp": "name", "name": name, "lo": r[0], "hi": r[1]}, **kw)
                if v is not None:
                    op["v"] = v & ((1 << (r[1] - r[0] + 1)) - 1)
                return op

            u0 = _mix(i, 77) & full
            yield base_case(dt, [named("bset", A, r1, _mix(i, 1)),
                                 {"op": "bitdef", "name": B, "lo": r2[0], "hi": r2[1]},
                                 named("bset", B, r2, _mix(i, 2)),
                                 named("bget", B, r2),
                                 {"op": "bitdef", "name": A, "lo": r3[0], "hi": r3[1]},
                                 named("bset", A, r3, ~_mix(i, 1)),
                                 named("bget", A, r3),
                                 {"op": "bget", "sp": "list", "lo": r1[0], "hi": r1[1]}],
                            init=_val(dt, u0), salt=i, bitnames=[[A, r1[0], r1[1]]], hold=(i % 5 == 0),
                            factor=(0.1, 1, -2, 0.25)[i % 4], sibling=(0, 3)[i % 2])
            yield base_case(dt, [named("bget", A, r1),
                                 {"op": "bitdef", "name": A, "lo": r2[0], "hi": r2[1]},
                                 named("bget", A, r2),
                                 named("bset", A, r2, _mix(i, 4), noread=True),
                                 {"op": "poke", "v": _val(dt, ~u0 & full), "route": ROUTES[i % 3]},
                                 named("bget", A, r2),
                                 {"op": "bitdef", "name": B, "lo": r1[0], "hi": r1[1]},
                                 named("bset", B, r1, _mix(i, 5))],
                            init=_val(dt, u0), salt=i + 1, bitnames=[[A, r1[0], r1[1]]],
                            factor=(0.1, 1, -2, 0.25)[i % 4])


def fault_cases(thorough):
    """An assignment fails - the device refuses the write once (its application raises SdoAbortedError from a
    write callback), or one frame of the SDO download is lost and the client times out - and the application
    repeats it, through the same variable object / the same kept Bits object.  The failing step is not judged;
    every assignment that returns normally is, like anywhere else."""
    i = 0
    for ti, dt in enumerate(INT_TYPES):
        lo_v, hi_v = rc.int_range(dt)
        full = (1 << _w(dt)) - 1
        usable = min(32, _usable(dt))
        for rep in range(6 if thorough else 1):
            for fi, fault in enumerate(FAULTS):
                i += 1
                carriers = list(FAULT_CARRIERS[fault])
                lost = fault != "refuse"
                descs = default_descs(dt, 4, salt=i)
                vals = [v for v, _ in descs]
                texts = [t for _, t in descs]
                a, b = (i + rep) % 4, (i + rep + 1 + fi) % 4
                if a == b:
                    b = (a + 1) % 4
                api = "rw" if i % 3 == 0 else "attr"
                # -- bit fields, every spelling in turn, through a kept view and through fresh ones
                lo = (i * 5 + rep) % max(1, usable - 3)
                hi = min(usable - 1, lo + (i + rep) % 4)
                n = hi - lo + 1
                ones = (1 << n) - 1
                sps = [sp for sp in SPELLINGS if domain({"dt": dt, "factor": 1, "init": 0, "carriers": [], "ops": [
                    {"op": "bget", "sp": sp, "lo": lo, "hi": hi}]}) is None]
                u0 = _mix(i, lo, hi, 11) & full
                for h, hold in enumerate((True, False)):
                    if lost and not thorough and h != (ti + fi) % 2:
                        continue                    # a lost frame costs a time-out: half of them in the quick tier
                    sp = sps[(i + h) % len(sps)]
                    sp2 = sps[(i + h + 1) % len(sps)]
                    v = (((u0 >> lo) & ones) ^ (1 + _mix(i, h) % ones)) if ones > 1 else ((u0 >> lo) & 1) ^ 1
                    w = v ^ ones if v ^ ones != (u0 >> lo) & ones else v ^ 1
                    w &= ones
                    ops = [{"op": "bset", "sp": sp, "lo": lo, "hi": hi, "v": v, "fault": fault},
                           {"op": "bset", "sp": sp, "lo": lo, "hi": hi, "v": v},
                           {"op": "bget", "sp": sp2, "lo": lo, "hi": hi},
                           {"op": "bset", "sp": sp, "lo": lo, "hi": hi, "v": w},
                           {"op": "bset", "sp": sp2, "lo": lo, "hi": hi, "v": v, "fault": fault, "noread": True},
                           {"op": "bset", "sp": sp, "lo": lo, "hi": hi, "v": v, "noread": True},
                           {"op": "bget", "sp": "list", "lo": lo, "hi": hi}]
                    if lost and not thorough:
                        del ops[3:6]
                    yield base_case(dt, ops, init=_val(dt, u0), salt=i + h, hold=hold, carriers=carriers,
                                    factor=(0.1, 1, -2, 0.25)[i % 4])
                if lost and not thorough and (ti + fi) % 3:
                    continue
                # -- descriptions
                yield base_case(dt, [{"op": "desc", "text": texts[a], "fault": fault, "api": api},
                                     {"op": "desc", "text": texts[a], "api": api},
                                     {"op": "raw", "v": vals[b]},
                                     {"op": "desc", "text": texts[a], "fault": fault, "noread": True},
                                     {"op": "desc_get", "api": api},
                                     {"op": "desc", "text": texts[a], "noread": True},
                                     {"op": "desc_get"}][:3 if lost and not thorough else None],
                                init=vals[b], descs=descs, salt=i + 2, carriers=carriers,
                                factor=(1, 0.5, -3, 1e-3)[i % 4])
                # -- physical and raw values
                factor = (0.1, -2, 0.25, 3, 1, 1e-3)[(i + rep) % 6]
                x1 = phys_request(dt, factor, 50 + rep, Fraction(1, 4), as_int=False)
                if x1 is not None:
                    yield base_case(dt, [{"op": "phys", "x": x1, "fault": fault, "api": api},
                                         {"op": "phys", "x": x1, "api": api},
                                         {"op": "raw", "v": 7, "fault": fault},
                                         {"op": "raw", "v": 7},
                                         {"op": "phys_get"}][:2 if lost and not thorough else None],
                                    init=3, salt=i + 3, factor=factor, carriers=carriers)


# -- Hypothesis: mixed histories ------------------------------------------------------------------
def _raw_strategy(dt):
    lo, hi = rc.int_range(dt)
    w = _w(dt)
    near = [v for v in (lo, lo + 1, hi - 1, hi, 0, 1, -1, 2, hi // 2) if lo <= v <= hi]
    pows = [p for k in range(1, w) for p in ((1 << k) - 1, 1 << k, -(1 << k)) if lo <= p <= hi]
    return st.one_of(st.sampled_from(near), st.sampled_from(pows), st.integers(lo, hi))


_FACTORS = factors()


def _factor_strategy():
    mant = st.floats(min_value=1.0, max_value=9.999, allow_nan=False, allow_infinity=False)
    rnd = st.builds(lambda m, e, neg: float(Fraction(m) * Fraction(10) ** e) * (-1 if neg else 1),
                    mant, st.integers(-6, 6), st.booleans())
    return st.one_of(st.sampled_from(_FACTORS), st.sampled_from(_FACTORS), rnd,
                     st.integers(1, 1000).map(lambda v: v), st.integers(-50, -1))


_TEXT = st.one_of(st.sampled_from(TEXT_POOL),
                  st.text(st.characters(min_codepoint=32, max_codepoint=0x17F, exclude_categories=["Cs", "Cc"]),
                          min_size=1, max_size=12))


@st.composite
def mixed_case(draw, kinds):
    dt = draw(st.sampled_from(INT_TYPES))
    lo_v, hi_v = rc.int_range(dt)
    factor = draw(_factor_strategy())
    n = draw(st.one_of(st.integers(1, 4), st.integers(1, 20)))
    values = draw(st.lists(_raw_strategy(dt), min_size=1, max_size=n, unique=True))
    texts = draw(st.lists(_TEXT, min_size=len(values), max_size=len(values), unique=True))
    descs = [[v, t] for v, t in zip(values, texts)]
    values, texts, retired = list(values), list(texts), []
    usable = min(32, _usable(dt))
    ops = []
    cur = factor                # the factor current at this point of the history
    custom = {}                 # names defined by "bitdef" ops so far
    last_set = None
    fault_kind = None           # one way of failing per history (it decides the carriers)
    for _ in range(draw(st.integers(1, 8))):
        kind = draw(st.sampled_from(kinds))
        if kind == "raw":
            ops.append({"op": "raw", "v": draw(st.one_of(_raw_strategy(dt), st.sampled_from(values)))})
            via = draw(st.sampled_from([None, None, "data", "rx"]))
            if via:
                ops[-1]["via"] = via
            last_set = ops[-1]
        elif kind == "poke":
            # out-of-band change, then (mostly) the last assignment once more with the identical argument,
            # or a read through one of the views
            ops.append({"op": "poke", "route": draw(st.sampled_from(ROUTES)),
                        "v": draw(st.one_of(_raw_strategy(dt), st.sampled_from(values)))})
            follow = draw(st.integers(0, 5))
            if follow <= 2 and last_set is not None:
                ops.append(dict(last_set))
            elif follow == 3:
                ops.append({"op": "desc_get"})
            elif follow == 4:
                ops.append({"op": "phys_get", "api": draw(st.sampled_from(["attr", "rw"]))})
        elif kind == "fault":
            # an assignment fails (device refuses / frame lost) and is (mostly) repeated as it is
            if last_set is None or draw(st.integers(0, 2)) == 0:
                a = draw(st.integers(0, usable - 1))
                b = draw(st.integers(a, min(usable - 1, a + 4)))
                last_set = {"op": "bset", "sp": draw(st.sampled_from(["list", "slice", "name"])), "lo": a, "hi": b,
                            "v": draw(st.integers(0, (1 << (b - a + 1)) - 1))}
            if last_set.get("via") == "rx":
                last_set = dict(last_set, via=None)
            fault_kind = fault_kind or draw(st.sampled_from(["refuse", "refuse", "refuse", "lost_req", "lost_resp"]))
            ops.append(dict(last_set, fault=fault_kind))
            for _ in range(draw(st.sampled_from([0, 1, 1, 1, 2]))):
                ops.append(dict(last_set))
        elif kind == "refactor":
            cur = draw(_factor_strategy())
            ops.append({"op": "refactor", "factor": cur})
            if last_set is not None and last_set["op"] == "phys":
                last_set = None                 # the same request may be out of range under the new factor
        elif kind == "phys_get":
            ops.append({"op": "phys_get", "api": draw(st.sampled_from(["attr", "attr", "rw"]))})
        elif kind == "bitdef":
            name = draw(st.sampled_from(["A", "B", "ready", "fault code", "Ü"]))
            a = draw(st.integers(0, usable - 1))
            b = draw(st.integers(a, min(usable - 1, a + 5)))
            custom[name] = (a, b)
            ops.append({"op": "bitdef", "name": name, "lo": a, "hi": b})
            if last_set is not None and last_set.get("name") == name:
                last_set = None
            if draw(st.booleans()):
                op = {"op": draw(st.sampled_from(["bset", "bget"])), "sp": "name", "name": name, "lo": a, "hi": b}
                if op["op"] == "bset":
                    op["v"] = draw(st.integers(0, (1 << (b - a + 1)) - 1))
                    last_set = op
                ops.append(op)
        elif kind == "phys":
            lim = (1 << 53) - 2
            r = draw(_raw_strategy(dt))
            r = max(-lim, min(lim, r))
            delta = draw(st.one_of(st.sampled_from(PHYS_DELTAS),
                                   st.fractions(Fraction(-1, 2), Fraction(1, 2), max_denominator=10 ** 6)))
            x = phys_request(dt, cur, r, delta, as_int=draw(st.booleans()))
            if x is None:           # at the very edge of the range: move inwards
                x = phys_request(dt, cur, r // 2, Fraction(0), as_int=False)
            if x is None:
                continue
            ops.append({"op": "phys", "x": x, "api": draw(st.sampled_from(["attr", "attr", "rw"]))})
            if draw(st.integers(0, 3)) == 0:
                ops[-1]["noread"] = True
            last_set = ops[-1]
        elif kind == "desc" and draw(st.integers(0, 5)) == 0:
            # the table is edited between uses: another text for a described value, or one more entry
            if draw(st.integers(0, 2)) or len(values) >= 20:
                j = draw(st.integers(0, len(values) - 1))
            else:
                j = len(values)
                v = draw(_raw_strategy(dt))
                if v in values:
                    continue
                values.append(v)
                texts.append(None)
            t = draw(_TEXT)
            while t in texts:
                t += "#"
            if texts[j] is not None:
                retired.append(texts[j])
            texts[j] = t
            ops.append({"op": "redesc", "value": values[j], "text": t})
        elif kind == "desc":
            if retired and draw(st.integers(0, 3)) == 0:
                t = draw(st.sampled_from(retired))      # a text that named a value earlier and no longer does
                if t in texts:
                    continue
            elif draw(st.integers(0, 4)) == 0:
                t = draw(st.one_of(_TEXT, st.sampled_from(texts).map(lambda s: s + " "),
                                   st.sampled_from(texts).map(lambda s: s.swapcase()),
                                   st.sampled_from(texts).map(lambda s: s[:-1] or "?")))
                while t in texts:
                    t += "#"
            else:
                t = draw(st.sampled_from(texts))
            ops.append({"op": "desc", "text": t, "api": draw(st.sampled_from(["attr", "attr", "rw"]))})
            if draw(st.integers(0, 3)) == 0:
                ops[-1]["noread"] = True
            last_set = ops[-1] if t in texts else last_set
        elif kind == "desc_get":
            ops.append({"op": "desc_get", "api": draw(st.sampled_from(["attr", "attr", "rw"]))})
        else:
            lo = draw(st.integers(0, usable - 1))
            hi = draw(st.one_of(st.just(lo), st.integers(lo, usable - 1), st.integers(lo, min(usable - 1, lo + 4))))
            sps = ["list", "slice", "name", "slice1"]
            if lo == hi:
                sps += ["int", "int"]
            if lo == 0:
                sps.append("slice0")
            if hi > lo:
                sps.append("list_rev")
            if hi > lo + 1:
                sps.append("list_rot")
            if lo > 0:
                sps.append("slice_rev")
            op = {"op": kind, "sp": draw(st.sampled_from(sps)), "lo": lo, "hi": hi}
            if custom and draw(st.integers(0, 2)) == 0:
                name = draw(st.sampled_from(sorted(custom)))
                lo, hi = custom[name]
                op = {"op": kind, "sp": "name", "name": name, "lo": lo, "hi": hi}
            if kind == "bset":
                ones = (1 << (hi - lo + 1)) - 1
                op["v"] = draw(st.one_of(st.sampled_from([0, 1, ones]), st.integers(0, ones)))
                if draw(st.integers(0, 3)) == 0:
                    op["noread"] = True
                last_set = op
            ops.append(op)
    if all(op["op"] in ("raw", "poke", "refactor", "bitdef") for op in ops):
        ops.append({"op": "bget", "sp": "list", "lo": 0, "hi": usable - 1})
    carriers = draw(st.sampled_from([["local"], ["remote"], ["pdo"], ["local", "remote", "pdo"],
                                     ["pdo", "local"], ["remote", "pdo"]]))
    if fault_kind == "refuse":
        carriers = draw(st.sampled_from([["local"], ["remote"], ["local", "remote"]]))
    elif fault_kind:
        carriers = ["remote"]
    room = (64 - _w(dt)) // 8
    ndec = draw(st.integers(0, 2))
    decoys = []
    for _ in range(ndec):
        a = draw(st.integers(0, usable - 1))
        decoys.append([a, draw(st.integers(a, usable - 1))])
    return {"dt": dt, "factor": factor, "descs": descs,
            "init": draw(st.one_of(_raw_strategy(dt), st.sampled_from(values))),
            "ops": ops, "carriers": carriers,
            "where": draw(st.sampled_from(["var", "record", "array"])), "sub": draw(st.integers(1, 254)),
            "pdo_side": draw(st.sampled_from(PDO_SIDES)), "hold": draw(st.booleans()),
            "init_via": draw(st.sampled_from([None, "rx", "data"])),
            "pad": draw(st.integers(0, min(3, room))), "decoys": decoys,
            "padbits": draw(st.sampled_from([0, 0, 1, 3, 4, 7])) if room >= 4 else 0,
            "sibling": draw(st.sampled_from([0, 0, 0, 1, 5, 16, 31]))}


def _showcase():
    from itertools import islice
    for gen in (phys_cases(False), desc_cases(False), bit_cases(False), signbit_cases()):
        for case in islice(gen, 40, 400, 170):
            yield case
    for gen in (exact_phys_cases(False), limits_cases(False), poke_cases(False), refactor_cases(False),
                bitdef_cases(False), fault_cases(False)):
        for case in islice(gen, 1, 30, 11):
            yield case


ALL_KINDS = ["raw", "phys", "phys", "desc", "desc", "desc_get", "bset", "bset", "bget"]
EDIT_KINDS = ALL_KINDS + ["poke", "poke", "poke", "refactor", "bitdef", "bitdef", "phys_get"]
FAULT_KINDS = ["raw", "phys", "desc", "desc_get", "bset", "bset", "bget", "fault", "fault", "fault", "poke", "bitdef"]


def search(ctx):
    thorough = ctx.tier == "thorough"
    # a few cases of every family first, so that the evidence samples show all of them
    ctx.enumerate(_showcase())
    ctx.enumerate(poke_cases(thorough), "out-of-band change of the stored value (3 routes) x views x types, then "
                                        "reads and identical repeated sets")
    ctx.enumerate(fault_cases(thorough), "an assignment fails (device refuses the write / download request lost / "
                                         "confirmation lost) and is repeated: views x types, kept and fresh Bits")
    ctx.enumerate(refactor_cases(thorough), "od.factor assigned mid-history: 12 factor pairs x types")
    ctx.enumerate(bitdef_cases(thorough), "add_bit_definition after first use (new name / moved name) x types")
    ctx.enumerate(exact_phys_cases(thorough), "exact multiples of power-of-two factors, |x/f| in 2^51..2^53, "
                                              "56/64-bit types")
    ctx.enumerate(limits_cases(thorough), "od.min/od.max set: requests inside, at and beyond the limits")
    ctx.enumerate(bit_cases(thorough),
                  "all 528 contiguous bit ranges within 32 bits x spellings x carriers"
                  + (" x every carrier type" if thorough else " (UNSIGNED32 + one rotating type)"))
    ctx.enumerate(signbit_cases(), "signed types <= 32 bits: reading every field that ends at the sign bit")
    ctx.enumerate(phys_cases(thorough), "factors +-m*10^e (e=-6..6), small ints, binary fractions x types x "
                                        "boundary raws x offsets in the rounding interval")
    ctx.enumerate(desc_cases(thorough), "description tables of every size 1..20 x types")
    ctx.hypothesis(mixed_case(ALL_KINDS), 4000 if thorough else 500, salt=1)
    ctx.hypothesis(mixed_case(["phys", "phys", "raw", "refactor", "poke", "phys_get"]), 2000 if thorough else 250,
                   salt=2)
    ctx.hypothesis(mixed_case(["bset", "bget", "bset", "raw", "bitdef", "poke"]), 2000 if thorough else 250, salt=3)
    ctx.hypothesis(mixed_case(EDIT_KINDS), 3000 if thorough else 400, salt=4)
    ctx.hypothesis(mixed_case(FAULT_KINDS), 1000 if thorough else 120, salt=5)
