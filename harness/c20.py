"""C20 - physical, described and bit-field views agree with the raw value.

SUT: canopen.variable.Variable.phys/.desc/.bits/.read/.write, canopen.variable.Bits and
ODVariable.encode_phys/decode_phys/encode_desc/decode_desc/encode_bits/decode_bits, reached
through the accessor layer of three carriers:

  local   LocalNode.sdo[...]                     (observed: LocalNode.data_store)
  remote  RemoteNode.sdo[...] <-> LocalNode      (SDO over the simulated hub; observed: the
                                                  server's data_store)
  pdo     byte-aligned PdoVariable in a PdoMap   (LocalNode.tpdo[1] or RemoteNode.rpdo[1];
                                                  observed: PdoMap.data incl. the neighbours)

Every variable under test is an integer variable that carries a scaling factor, a value
description table AND bit definitions at the same time (that is what the property quantifies
over); it sits at top level or in a record/array and has neighbours that must stay unchanged.

A case is one such variable plus a short history of operations; it is executed on each carrier
named in the case against an independent model (an unsigned bit pattern of the type's width,
exact rational arithmetic for the scaling) and compared after every step.  The stored bytes are
decoded by the harness (int.from_bytes), never by canopen.

Clause -> case family
  (a) "setting the physical value and reading it back differs from the request by at most half a
      scaling step and the raw value is the nearest integer of value/factor"
        op "phys" (families phys/*: enumerated factors +-m*10^e, e=-6..6, small ints, binary
        fractions x every integer type x range ends, 0, +-1, powers of two x offsets 0, +-1/4,
        +-0.49, +-0.4999, +-1/2 (tie, either neighbour accepted), 1/3 inside the rounding
        interval; Hypothesis histories add random factors/raws/offsets).  Set through
        `var.phys = x` and `var.write(x, "phys")`, read through `var.phys` / `var.read("phys")`.
  (b) "setting a description writes exactly the value it names and reading returns the
      description of the current value"
        ops "desc" / "desc_get" (families desc/*: tables of every size 1..20 on every type with
        values at the range ends, texts that are prefixes / case variants / padded variants of
        each other).  Texts that are not in the table must be refused and must not write; a
        current value without description must not be given one (any exception type).
  (c) "assigning to a bit field given as a bit number, a list, a slice or a defined name changes
      exactly those bits of the raw value and reading the field returns them"
        ops "bset" / "bget" (families bits/*: EVERY contiguous range lo..hi within 32 bits, 528
        ranges, in the spellings int (lo == hi), list, slice `bits[lo:hi+1]`, slice with explicit
        step 1, `bits[:hi+1]` (lo == 0), defined name, and the list in descending order; field
        values all-ones, 0, pseudo-random, alternating on a pseudo-random start pattern and on
        its complement, so that both clearing and setting are observable; optionally through one
        Bits object kept over consecutive assignments).  Signed carrier types are used for the
        ranges below their sign bit (negative raw values included); fields that include the sign
        bit of INTEGER8/16/24/32 are READ in every spelling (family bits/*/read-incl-sign-bit),
        assigning to them is excluded by construction and counted (canopen raises ValueError
        there - reported as a finding, not silently wrong).
  (d) "these views behave the same over SDO and PDO variables"
        every enumerated case runs on all three carriers; apart from the absolute oracle the
        observations (stored pattern + returned values) are compared between the carriers.
"""
from fractions import Fraction

from hypothesis import strategies as st

from harness import refcodec as rc
from harness.core import Discrepancy, Outcome
from harness.odutil import build_od
from harness.simbus import Hub

PROPERTY = "C20"
LEVEL = "exploration"
RULE = ("case = integer variable (type, factor, description table 1..20, bit definitions, position "
        "var/record/array, PDO padding) + initial raw value + history of 1..8 ops (raw | phys set+read "
        "back | desc set+read | desc read | bit field set+read | bit field read) executed on the "
        "carriers local SDO, remote SDO over the hub and PDO map. Enumerated: all 528 contiguous "
        "ranges within 32 bits x spellings {int,list,slice,slice-step1,slice-nostart,name,"
        "list-descending} x carrier types that hold them (quick: UNSIGNED32 + one rotating type, "
        "thorough: every type), reads of every field ending at the sign bit of INTEGER8..32, ~120 factors x types x boundary raws x offsets inside the rounding "
        "interval, tables of every size 1..20 x types; Hypothesis adds mixed histories, incl. "
        "edits of the description table between uses (add_value_description: new text for a described "
        "value, or one more entry), and a second variable that defines fields of the same names at other bit "
        "positions and is used first. Oracle: "
        "bit-pattern model + exact rationals: |raw - x/f| <= 1/2 + 2^-51|x/f|, |readback - x| <= "
        "|f|/2 + float slack, desc/bits exact; stored bytes decoded by the harness. Non-trivial = a "
        "phys op with factor != 1, a desc op on a table of >= 2 entries, or a bit op with lo > 0 and "
        "hi > lo; distinct = canonical JSON of the case.")
ASSUMPTIONS = [
    "scaling is float arithmetic (factor is documented as float): the nearest-integer demand carries a "
    "relative slack of 2^-51 of |x/f| (two float roundings), requests with |x/f| >= 2^53 are out of domain",
    "requests whose nearest integer (within that slack) lies outside the type's range are out of domain",
    "a field value must fit the field; on signed carrier types fields are assigned only below the sign bit "
    "(fields including it are only read)",
    "'refused' (unknown description text, value without description) accepts any exception type",
    "a Bits object is a snapshot: it is only reused across consecutive bit assignments, never across "
    "other writes",
    "description texts are non-empty and distinct, described values distinct and inside the type's range",
]
BUDGET = {"quick": 150, "thorough": 400}

NODE = 5
INT_TYPES = sorted(rc.INTEGERS)
PAD_DT = {1: rc.UNSIGNED8, 2: rc.UNSIGNED16, 3: rc.UNSIGNED24}
V_INDEX = 0x2001
PAD_INDEX = 0x2000
TAIL_INDEX = 0x2002
PADBIT_INDEX = 0x2003
TWO51 = Fraction(1, 1 << 51)
SPELLINGS = ("int", "list", "list_rev", "slice", "slice0", "slice1", "name")


# ---- small helpers ---------------------------------------------------------------
def _w(dt):
    return rc.INTEGERS[dt]


def _usable(dt):
    """Number of low bits that can be used as bit fields (below the sign bit)."""
    return _w(dt) - 1 if dt in rc.SIGNED else _w(dt)


def _pat(dt, value):
    return value & ((1 << _w(dt)) - 1)


def _val(dt, pattern):
    w = _w(dt)
    if dt in rc.SIGNED and pattern >> (w - 1):
        return pattern - (1 << w)
    return pattern


def _bytes(dt, pattern):
    return pattern.to_bytes(_w(dt) // 8, "little")


def bit_name(lo, hi):
    return f"F{lo}_{hi}"


def _key(op):
    lo, hi, sp = op["lo"], op["hi"], op["sp"]
    if sp == "int":
        return lo
    if sp == "list":
        return list(range(lo, hi + 1))
    if sp == "list_rev":
        return list(range(hi, lo - 1, -1))
    if sp == "slice":
        return slice(lo, hi + 1)            # what bits[lo:hi+1] hands to __getitem__
    if sp == "slice0":
        return slice(None, hi + 1)          # bits[:hi+1]
    if sp == "slice1":
        return slice(lo, hi + 1, 1)
    if sp == "name":
        return bit_name(lo, hi)
    raise ValueError(sp)


def _frac(x):
    """Exact rational value of an int/float; None for nan/inf/other."""
    if isinstance(x, bool) or not isinstance(x, (int, float)):
        return None
    try:
        return Fraction(x)
    except (ValueError, OverflowError):
        return None


def _floor(q):
    return q.numerator // q.denominator


def _ceil(q):
    return -((-q.numerator) // q.denominator)


def phys_tol(q):
    return Fraction(1, 2) + abs(q) * TWO51


# ---- domain of a case (static: depends on the case only) ---------------------------
def domain(case):
    """None when every op of the case is inside the property's domain, else the reason."""
    dt = case["dt"]
    lo_v, hi_v = rc.int_range(dt)
    f = _frac(case["factor"])
    if f is None or f == 0:
        return "factor is not a finite non-zero number"
    if not lo_v <= case["init"] <= hi_v:
        return "raw value outside the type's range"
    for op in case["ops"]:
        k = op["op"]
        if k == "raw":
            if not lo_v <= op["v"] <= hi_v:
                return "raw value outside the type's range"
        elif k == "phys":
            x = _frac(op["x"])
            if x is None:
                return "physical value is not a finite number"
            q = x / f
            if abs(q) >= 1 << 53:
                return "phys: |x/f| >= 2^53 (beyond exact float integers)"
            t = phys_tol(q)
            if _ceil(q - t) < lo_v or _floor(q + t) > hi_v:
                return "phys: nearest integer of x/f may lie outside the type's range"
        elif k in ("bset", "bget"):
            if not (0 <= op["lo"] <= op["hi"] < 32 and op["hi"] < _w(dt)):
                return "bit range outside the carrier type / not within 32 bits"
            if op["sp"] == "int" and op["lo"] != op["hi"]:
                return "single bit number for a multi-bit range"
            if op["sp"] == "slice0" and op["lo"] != 0:
                return "slice without start for a range not starting at 0"
            if k == "bset" and not 0 <= op["v"] < (1 << (op["hi"] - op["lo"] + 1)):
                return "field value does not fit the field"
    return None


# ---- object dictionary of a case ----------------------------------------------------
def _bitdefs(case):
    defs = {}
    for lo, hi in case.get("decoys", []):
        defs[bit_name(lo, hi)] = list(range(lo, hi + 1))
    for op in case["ops"]:
        if op["op"] in ("bset", "bget"):
            defs[bit_name(op["lo"], op["hi"])] = list(range(op["lo"], op["hi"] + 1))
    return defs


def od_spec(case):
    target = {"name": "v", "dt": case["dt"], "pdo": True, "factor": case["factor"], "unit": "u",
              "value_descriptions": {int(v): t for v, t in case["descs"]},
              "bit_definitions": _bitdefs(case)}
    spec = []
    for com, mp in ((0x1400, 0x1600), (0x1800, 0x1A00)):
        spec.append({"kind": "record", "index": com, "name": f"com{com:x}", "members": [
            {"sub": 0, "name": "n", "dt": rc.UNSIGNED8},
            {"sub": 1, "name": "cob", "dt": rc.UNSIGNED32},
            {"sub": 2, "name": "type", "dt": rc.UNSIGNED8}]})
        spec.append({"kind": "array", "index": mp, "name": f"map{mp:x}", "members": [
            {"sub": 0, "name": "n", "dt": rc.UNSIGNED8},
            {"sub": 1, "name": "m1", "dt": rc.UNSIGNED32}]})
    spec.append({"kind": "var", "index": PAD_INDEX, "name": "pad", "pdo": True,
                 "dt": PAD_DT.get(case.get("pad", 0), rc.UNSIGNED8)})
    spec.append({"kind": "var", "index": TAIL_INDEX, "name": "tail", "dt": rc.UNSIGNED8, "pdo": True})
    spec.append({"kind": "var", "index": PADBIT_INDEX, "name": "bitpad", "dt": rc.UNSIGNED8, "pdo": True})
    where = case.get("where", "var")
    if where == "var":
        spec.append(dict(target, kind="var", index=V_INDEX))
    else:
        spec.append({"kind": where, "index": V_INDEX, "name": "grp", "members": [
            {"sub": 0, "name": "n", "dt": rc.UNSIGNED8},
            dict(target, sub=case["sub"])]})
    return spec


def _addr(case):
    return V_INDEX, (0 if case.get("where", "var") == "var" else case["sub"])


# ---- carriers ------------------------------------------------------------------------
class _Local:
    def __init__(self, case):
        import canopen
        self.node = canopen.LocalNode(NODE, build_od(od_spec(case)))
        self.index, self.sub = _addr(case)
        self.accessor = self.node.sdo
        self._finish()

    def _finish(self):
        v = self.accessor[self.index]
        self.var = v if self.sub == 0 else v[self.sub]
        self.accessor[TAIL_INDEX].raw = 0x5A

    def store(self):
        return self.node.data_store

    def observe(self, nbytes):
        ds = self.store()
        data = ds.get(self.index, {}).get(self.sub)
        rest = {(i, s): bytes(b) for i, subs in ds.items() for s, b in subs.items()
                if (i, s) != (self.index, self.sub)}
        ok = rest == {(TAIL_INDEX, 0): b"\x5a"}
        return (None if data is None else bytes(data)), (None if ok else f"other entries of the store: {rest}")


class _Remote(_Local):
    def __init__(self, case):
        import canopen
        self.hub = Hub()
        self.hub.raise_notify_errors = True
        self.cnet, self.cport = self.hub.attach("client")
        self.snet, self.sport = self.hub.attach("server")
        self.server = canopen.LocalNode(NODE, build_od(od_spec(case)))
        self.snet.add_node(self.server)
        self.node = canopen.RemoteNode(NODE, build_od(od_spec(case)))
        self.cnet.add_node(self.node)
        self.node.sdo.RESPONSE_TIMEOUT = 0.05
        self.index, self.sub = _addr(case)
        self.accessor = self.node.sdo
        self._finish()

    def store(self):
        return self.server.data_store


class _Pdo:
    def __init__(self, case):
        import canopen
        od = build_od(od_spec(case))
        if case.get("pdo_side", "tpdo") == "tpdo":
            self.node = canopen.LocalNode(NODE, od)
            self.map = self.node.tpdo[1]
        else:
            self.node = canopen.RemoteNode(NODE, od)
            self.map = self.node.rpdo[1]
        index, sub = _addr(case)
        self.pad = case.get("pad", 0)
        self.padbits = case.get("padbits", 0)     # a sub-byte field in front: the variable starts off a byte boundary
        w = _w(case["dt"])
        if self.padbits:
            bitvar = self.map.add_variable(PADBIT_INDEX, 0, self.padbits)
        if self.pad:
            padvar = self.map.add_variable(PAD_INDEX)
        self.var = self.map.add_variable(index, sub)
        self.tail = 1 if self.padbits + self.pad * 8 + w + 8 <= 64 else 0
        if self.tail:
            tailvar = self.map.add_variable(TAIL_INDEX)
        self.bitpat = 0x55 & ((1 << self.padbits) - 1)
        if self.padbits:
            bitvar.raw = self.bitpat
        if self.pad:
            padvar.data = b"\xa5" * self.pad
        if self.tail:
            tailvar.data = b"\x5a"

    def observe(self, nbytes):
        data = bytes(self.map.data)
        off = self.padbits + self.pad * 8
        want_len = (off + nbytes * 8 + self.tail * 8 + 7) // 8
        if len(data) != want_len:
            return None, f"PdoMap.data has {len(data)} bytes, the mapping has {want_len}"
        F = int.from_bytes(data, "little")
        mid = ((F >> off) & ((1 << (nbytes * 8)) - 1)).to_bytes(nbytes, "little")
        low, high = F & ((1 << off) - 1), F >> (off + nbytes * 8)
        want_low = self.bitpat | (int.from_bytes(b"\xa5" * self.pad, "little") << self.padbits)
        if low != want_low or high != (0x5A if self.tail else 0):
            return mid, f"neighbours in the PDO changed: {data.hex()}"
        return mid, None


CARRIERS = {"local": _Local, "remote": _Remote, "pdo": _Pdo}


def _call(fn):
    try:
        return True, fn()
    except Exception as e:  # judged by the caller
        return False, e


def _exc(e):
    return f"{type(e).__name__}: {e}"


# ---- one history on one carrier --------------------------------------------------------
def _run_on(cname, case, D):
    """Execute the history on one carrier; returns the list of observations."""
    dt = case["dt"]
    w = _w(dt)
    nbytes = w // 8
    f = _frac(case["factor"])
    table = {int(v): t for v, t in case["descs"]}
    by_text = {t: int(v) for v, t in case["descs"]}
    hold = case.get("hold", False)
    tname = rc.NAMES[dt]

    def bad(sig, detail):
        D.append(Discrepancy(f"C20/{sig}", f"[{cname} {tname} factor={case['factor']!r}] {detail}"))

    ok, car = _call(lambda: CARRIERS[cname](case))
    if not ok:
        bad("setup/raises", f"building the variable raised {_exc(car)}")
        return []
    var = car.var
    U = None                    # model: bit pattern of the stored raw value
    held = None
    obs = []
    if case.get("sibling"):
        # another variable of the application (another object, another device profile) defines fields with the
        # SAME names at other bit positions and is used first: names are local to a variable
        from canopen.objectdictionary import ODVariable
        sib = ODVariable("sibling", 0x2F00)
        sib.data_type = rc.UNSIGNED32
        shift = case["sibling"]
        for name, bits in _bitdefs(case).items():
            sbits = [(b + shift) % 32 for b in bits]
            sib.add_bit_definition(name, sbits)
        for name, bits in _bitdefs(case).items():
            sbits = [(b + shift) % 32 for b in bits]
            mask = sum(1 << b for b in sbits)
            ok, got = _call(lambda: (sib.decode_bits(0xFFFFFFFF, name), sib.encode_bits(0, name, 1)))
            want = (mask >> min(sbits), 1 << min(sbits))
            if not ok or tuple(got) != want:
                bad("bits/sibling", f"variable 'sibling' field {name!r} = bits {sbits}: decode_bits(0xFFFFFFFF), "
                                    f"encode_bits(0, 1) give {_exc(got) if not ok else got}, want {want}")
                return []

    def stored(tag):
        """Observed pattern of the stored raw value (None + discrepancy when unusable)."""
        data, neigh = car.observe(nbytes)
        if neigh:
            bad("store/neighbour-changed", f"{tag}: {neigh}")
            return None
        if data is None or len(data) != nbytes:
            bad("store/size", f"{tag}: stored {None if data is None else data.hex()} for a {nbytes}-byte type")
            return None
        return int.from_bytes(data, "little")

    def expect_stored(tag, sig):
        got = stored(tag)
        if got is None:
            return False
        if got != U:
            bad(sig, f"{tag}: stored raw pattern {got:#0{nbytes * 2 + 2}x} want {U:#0{nbytes * 2 + 2}x}")
            return False
        return True

    steps = [{"op": "raw", "v": case["init"]}] + list(case["ops"])
    for k, op in enumerate(steps):
        kind = op["op"]
        tag = f"step {k} {op}"
        ret = None
        api = op.get("api", "attr")
        if kind not in ("bset", "bget"):
            held = None

        if kind == "raw":
            if op.get("via") == "data":
                # the same value written as bytes through the variable's data attribute
                raw_bytes = _pat(dt, op["v"]).to_bytes(nbytes, "little")
                ok, r = _call(lambda: setattr(var, "data", raw_bytes))
            else:
                ok, r = _call(lambda: setattr(var, "raw", op["v"]))
            if not ok:
                bad("raw/raises", f"{tag}: {_exc(r)}")
                break
            U = _pat(dt, op["v"])
            if not expect_stored(tag, "raw/stored"):
                break

        elif kind == "phys":
            x = op["x"]
            xq = _frac(x)
            q = xq / f
            if api == "rw":
                ok, r = _call(lambda: var.write(x, fmt="phys"))
            else:
                ok, r = _call(lambda: setattr(var, "phys", x))
            if not ok:
                bad("phys/set-raises", f"{tag}: x/f = {float(q)!r}: {_exc(r)}")
                break
            got = stored(tag)
            if got is None:
                break
            r = _val(dt, got)
            tol = phys_tol(q)
            if abs(r - q) > tol:
                bad("phys/raw-not-nearest", f"{tag}: stored raw {r}, x/f = {float(q)!r} "
                                            f"(off by {float(abs(r - q))!r} steps)")
                break
            U = got
            ok, y = _call((lambda: var.read(fmt="phys")) if api == "rw" else (lambda: var.phys))
            if not ok:
                bad("phys/get-raises", f"{tag}: {_exc(y)}")
                break
            yq = _frac(y)
            if yq is None:
                bad("phys/readback", f"{tag}: read back {y!r}")
                break
            allowed = abs(f) * tol + abs(r * f) * TWO51
            if abs(yq - xq) > allowed:
                bad("phys/readback", f"{tag}: read back {y!r} for request {x!r} (raw {r}); "
                                     f"differs by {float(abs(yq - xq) / abs(f))!r} steps")
                break
            ret = y

        elif kind == "desc":
            text = op["text"]
            if api == "rw":
                ok, r = _call(lambda: var.write(text, fmt="desc"))
            else:
                ok, r = _call(lambda: setattr(var, "desc", text))
            if text in by_text:
                if not ok:
                    bad("desc/set-raises", f"{tag}: {_exc(r)}")
                    break
                U = _pat(dt, by_text[text])
                if not expect_stored(tag + f" (names {by_text[text]})", "desc/wrong-value"):
                    break
                ok, d = _call((lambda: var.read(fmt="desc")) if api == "rw" else (lambda: var.desc))
                if not ok:
                    bad("desc/get-raises", f"{tag}: {_exc(d)}")
                    break
                if d != text:
                    bad("desc/read", f"{tag}: reading returned {d!r}")
                    break
                ret = d
            else:
                if ok:
                    bad("desc/unknown-accepted", f"{tag}: text is not in the table {sorted(by_text)} "
                                                 f"but the assignment succeeded")
                    break
                if not expect_stored(tag + " (refused)", "desc/unknown-wrote"):
                    break
                ret = "refused"

        elif kind == "redesc":
            # the application edits the table after it has been used: the text of a described value is
            # replaced, or a new entry is added (ODVariable.add_value_description, the documented way)
            v, text = int(op["value"]), op["text"]
            if text in by_text and by_text[text] != v:
                raise ValueError("generator error: description texts must stay distinct")
            ok, r = _call(lambda: var.od.add_value_description(v, text))
            if not ok:
                bad("desc/edit-raises", f"{tag}: {_exc(r)}")
                break
            if v in table:
                by_text.pop(table[v], None)
            table[v] = text
            by_text[text] = v
            ret = "edited"

        elif kind == "desc_get":
            ok, d = _call((lambda: var.read(fmt="desc")) if api == "rw" else (lambda: var.desc))
            cur = _val(dt, U)
            if cur in table:
                if not ok:
                    bad("desc/get-raises", f"{tag}: current value {cur}: {_exc(d)}")
                    break
                if d != table[cur]:
                    bad("desc/read", f"{tag}: current value {cur} is {table[cur]!r}, reading returned {d!r}")
                    break
                ret = d
            else:
                if ok:
                    bad("desc/read-undescribed", f"{tag}: current value {cur} has no description, "
                                                 f"reading returned {d!r}")
                    break
                ret = "refused"
            if not expect_stored(tag, "desc/read-wrote"):
                break

        elif kind in ("bset", "bget"):
            lo, hi, sp = op["lo"], op["hi"], op["sp"]
            n = hi - lo + 1
            fmask = (1 << n) - 1
            if hold and held is not None:
                bits = held
            else:
                ok, bits = _call(lambda: var.bits)
                if not ok:
                    bad(f"bits/{sp}/raises", f"{tag}: var.bits: {_exc(bits)}")
                    break
                held = bits if hold else None
            if kind == "bset":
                v = op["v"]
                ok, r = _call(lambda: bits.__setitem__(_key(op), v))
                if not ok:
                    bad(f"bits/{sp}/set-raises", f"{tag}: {_exc(r)}")
                    break
                U = (U & ~(fmask << lo)) | (v << lo)
                if not expect_stored(tag, f"bits/{sp}/set"):
                    break
                want = v
                reader = bits if hold else None
            else:
                want = (U >> lo) & fmask
                reader = bits
            if reader is None:
                ok, reader = _call(lambda: var.bits)
                if not ok:
                    bad(f"bits/{sp}/raises", f"{tag}: var.bits: {_exc(reader)}")
                    break
            ok, g = _call(lambda: reader[_key(op)])
            if not ok:
                bad(f"bits/{sp}/get-raises", f"{tag}: {_exc(g)}")
                break
            if isinstance(g, bool) or not isinstance(g, int) or g != want:
                bad(f"bits/{sp}/get", f"{tag}: field reads {g!r} want {want} "
                                      f"(raw pattern {U:#x})")
                break
            if not expect_stored(tag + " (after read)", f"bits/{sp}/read-wrote"):
                break
            ret = g
        else:
            raise ValueError(kind)
        obs.append((k, U, ret))
    if cname == "remote" and not D:
        errs = car.sport.notify_errors + car.cport.notify_errors
        if errs:
            bad("remote/notify-error", f"exception out of Network.notify: {_exc(errs[0][1])}")
    return obs


# ---- classification ------------------------------------------------------------------------
def _fclass(factor):
    a = abs(factor)
    sign = "neg" if factor < 0 else "pos"
    if a == 1:
        return f"f1/{sign}"
    if a < 1e-3:
        mag = "<1e-3"
    elif a < 1:
        mag = "1e-3..1"
    elif a <= 1e3:
        mag = "1..1e3"
    else:
        mag = ">1e3"
    return f"f{mag}/{sign}"


def _nclass(n):
    if n == 1:
        return "w1"
    if n <= 8:
        return "w2-8"
    return "w9-32"


def _tclass(dt):
    if dt == rc.UNSIGNED32:
        return "UNSIGNED32"
    return "signed" if dt in rc.SIGNED else "unsigned"


def classify(case):
    kinds = {"raw": 0, "phys": 0, "desc": 0, "bits": 0}
    nontrivial = False
    first_bit = None
    signbit = False
    for op in case["ops"]:
        k = op["op"]
        if k == "phys":
            kinds["phys"] += 1
            nontrivial |= case["factor"] != 1
        elif k in ("desc", "desc_get", "redesc"):
            kinds["desc"] += 1
            nontrivial |= len(case["descs"]) >= 2
        elif k in ("bset", "bget"):
            kinds["bits"] += 1
            first_bit = first_bit or op
            nontrivial |= op["lo"] > 0 and op["hi"] > op["lo"]
            signbit |= op["hi"] >= _usable(case["dt"])
        else:
            kinds["raw"] += 1
    used = [k for k in ("phys", "desc", "bits") if kinds[k]]
    dt = case["dt"]
    sgn = "signed" if dt in rc.SIGNED else "unsigned"
    if len(used) > 1:
        klass = f"mixed/{'+'.join(used)}/{len(case['carriers'])}-carrier"
    elif used == ["phys"]:
        klass = f"phys/{sgn}/{_fclass(case['factor'])}"
    elif used == ["desc"]:
        n = len(case["descs"])
        klass = f"desc/{sgn}/n{n if n < 3 else ('3-9' if n < 10 else '10-20')}"
    elif used == ["bits"]:
        sps = {op["sp"] for op in case["ops"] if op["op"] in ("bset", "bget")}
        sp = first_bit["sp"] if len(sps) <= 2 else "several"
        if signbit:
            klass = f"bits/{sp}/read-incl-sign-bit"
        else:
            klass = f"bits/{sp}/{_tclass(dt)}/{_nclass(first_bit['hi'] - first_bit['lo'] + 1)}"
    else:
        klass = f"raw-only/{sgn}"
    return nontrivial, klass


def run_case(case) -> Outcome:
    reason = domain(case)
    if reason:
        return Outcome(excluded=reason)
    nontrivial, klass = classify(case)
    D = []
    seen = {}
    for cname in case["carriers"]:
        obs = _run_on(cname, case, D)
        if D:
            return Outcome(nontrivial, klass, D)
        seen[cname] = obs
    names = list(seen)
    for other in names[1:]:
        if seen[other] != seen[names[0]]:
            diff = next(((a, b) for a, b in zip(seen[names[0]], seen[other]) if a != b), None)
            D.append(Discrepancy("C20/carriers-differ",
                                 f"{names[0]} and {other} disagree: (step, pattern, returned) {diff}"))
            break
    return Outcome(nontrivial, klass, D)


# ---- generation -------------------------------------------------------------------------------
TEXT_POOL = ["Off", "On", "ON", "on", "On ", " On", "Onn", "O", "Error", "Error 1", "Error 10", "error",
             "0", "1", "-1", "Ready to switch on", "Switched on", "Switch on disabled", "Fault",
             "Fault reaction active", "Quick stop", "n/a", "a,b", "x=1", "[3]", "None", "True",
             "µm", "Über", "A" * 40]


def _mix(*xs):
    """Deterministic 64-bit scrambler (splitmix64 steps) - no RNG, no clock."""
    z = 0x9E3779B97F4A7C15
    for x in xs:
        z = (z + (x + 1) * 0xBF58476D1CE4E5B9) & 0xFFFFFFFFFFFFFFFF
        z ^= z >> 30
        z = (z * 0x94D049BB133111EB) & 0xFFFFFFFFFFFFFFFF
        z ^= z >> 27
    return z


def default_descs(dt, n=4, salt=0):
    """n distinct in-range values (range ends first) with distinct tricky texts."""
    lo, hi = rc.int_range(dt)
    vals = []
    for v in (0, 1, hi, lo, 3, hi - 1, lo + 1, 2, 7, 100, hi // 2, 5, 6, 8, 9, 10, 11, 12, 13, 14, 15, 16, 17):
        if lo <= v <= hi and v not in vals:
            vals.append(v)
    vals = vals[:n]
    return [[v, TEXT_POOL[(i + salt) % len(TEXT_POOL)]] for i, v in enumerate(vals)]


def base_case(dt, ops, init=0, factor=0.1, descs=None, salt=0, **kw):
    case = {"dt": dt, "factor": factor, "descs": descs if descs is not None else default_descs(dt, 4, salt),
            "init": init, "ops": ops, "carriers": ["local", "remote", "pdo"],
            "where": ("var", "record", "array")[salt % 3], "sub": 1 + salt % 254,
            "pdo_side": ("tpdo", "rpdo")[(salt // 3) % 2], "hold": False, "decoys": []}
    room = (64 - _w(dt)) // 8
    case["pad"] = min(room, (salt // 2) % 4)
    if 64 - _w(dt) - 8 * case["pad"] >= 8:
        case["padbits"] = (0, 1, 0, 3, 7, 0, 5)[salt % 7]
    case.update(kw)
    return case


def bit_cases(thorough):
    i = 0
    for lo in range(32):
        for hi in range(lo, 32):
            n = hi - lo + 1
            ones = (1 << n) - 1
            fits = [dt for dt in INT_TYPES if hi < _usable(dt)]
            spell = ["list", "slice", "name", "slice1"]
            if lo == hi:
                spell.append("int")
            if lo == 0:
                spell.append("slice0")
            if n > 1:
                spell.append("list_rev")
            for sp in spell:
                if thorough:
                    types = fits
                else:
                    types = [rc.UNSIGNED32]
                    if sp in ("list", "slice", "name", "int"):
                        alt = fits[i % len(fits)]
                        if alt != rc.UNSIGNED32:
                            types.append(alt)
                for dt in types:
                    i += 1
                    full = (1 << _w(dt)) - 1
                    u0 = _mix(lo, hi, i) & full
                    rnd = _mix(hi, lo, i, 7) & ones
                    alt_v = 0x55555555 & ones
                    other = "list" if sp != "list" else "slice"
                    ops = [
                        {"op": "bget", "sp": sp, "lo": lo, "hi": hi},
                        {"op": "bset", "sp": sp, "lo": lo, "hi": hi, "v": ones},
                        {"op": "bset", "sp": sp, "lo": lo, "hi": hi, "v": 0},
                        {"op": "raw", "v": _val(dt, ~u0 & full)},
                        {"op": "bset", "sp": sp, "lo": lo, "hi": hi, "v": rnd},
                        {"op": "bget", "sp": other, "lo": lo, "hi": hi},
                        {"op": "bset", "sp": sp, "lo": lo, "hi": hi, "v": alt_v ^ (1 if rnd == alt_v else 0)},
                    ]
                    decoys = [[0, _usable(dt) - 1 if _usable(dt) <= 32 else 31]]
                    if lo > 0:
                        decoys.append([lo - 1, hi])
                    if hi + 1 < min(32, _usable(dt)):
                        decoys.append([lo, hi + 1])
                    yield base_case(dt, ops, init=_val(dt, u0), salt=i, hold=(i % 5 == 0), decoys=decoys,
                                    factor=(0.1, 1, -2, 0.25)[i % 4],
                                    sibling=(0, 0, 1, 7)[i % 4] if sp == "name" else 0)


def signbit_cases():
    """Signed types of <= 32 bits: fields that include the sign bit.  Reading them is in the
    domain (negative raw values included); assigning is excluded by construction (counted)."""
    i = 0
    for dt in (rc.INTEGER8, rc.INTEGER16, rc.INTEGER24, rc.INTEGER32):
        w = _w(dt)
        full = (1 << w) - 1
        for lo in range(w):
            hi = w - 1
            spell = ["list", "slice", "name", "slice1"] + (["int"] if lo == hi else []) \
                + (["slice0"] if lo == 0 else []) + (["list_rev"] if hi > lo else [])
            for sp in spell:
                i += 1
                u0 = (_mix(lo, w, i) & full) | (1 << (w - 1))
                ops = [{"op": "bget", "sp": sp, "lo": lo, "hi": hi},
                       dict({"op": "raw", "v": _val(dt, ~u0 & full)}, **({"via": "data"} if i % 2 else {})),
                       {"op": "bget", "sp": sp, "lo": lo, "hi": hi},
                       {"op": "raw", "v": -1},
                       {"op": "bget", "sp": sp, "lo": lo, "hi": hi}]
                yield base_case(dt, ops, init=_val(dt, u0), salt=i, hold=False, factor=(0.1, 1, -2, 0.25)[i % 4])
        # assigning fields that include the sign bit (repaired in /repo by commit "bit fields that
        # include the sign bit ..."): from raw 0, from -1 and from a mixed pattern, every spelling
        for lo in sorted({w - 1, w - 2, w - 4, w // 2, 1, 0}):
            hi = w - 1
            n = hi - lo + 1
            spell = ["list", "slice", "name"] + (["int"] if lo == hi else []) + (["slice0"] if lo == 0 else [])
            for sp in spell:
                for init in (0, -1, _val(dt, _mix(lo, w, 7) & full)):
                    for v in sorted({(1 << n) - 1, 0, 1 << (n - 1), (1 << (n - 1)) - 1, _mix(lo, n, 3) & ((1 << n) - 1)}):
                        i += 1
                        yield base_case(dt, [{"op": "bset", "sp": sp, "lo": lo, "hi": hi, "v": v},
                                             {"op": "bget", "sp": sp, "lo": lo, "hi": hi}],
                                        init=init, salt=i, hold=False)


def factors():
    out = [1, -1, 2, 3, 4, -2, 8, 16, -7, 0.5, 0.25, -0.125, 1 / 1024, 1.5, -2.5, 1 / 3, 0.7, -0.3]
    for e in range(-6, 7):
        for m in (1, 2, 5, 7):
            q = Fraction(m) * Fraction(10) ** e
            pos = int(q) if q.denominator == 1 else float(q)
            out.append(pos)
            out.append(-float(q))
    seen = []
    for f in out:
        if not any(f == g and type(f) is type(g) for g in seen):
            seen.append(f)
    return seen


PHYS_DELTAS = [Fraction(0), Fraction(1, 4), Fraction(-1, 4), Fraction(49, 100), Fraction(-49, 100),
               Fraction(4999, 10000), Fraction(-4999, 10000), Fraction(1, 2), Fraction(-1, 2), Fraction(1, 3),
               Fraction(-2, 5), Fraction(1, 1000)]


def raw_targets(dt):
    lo, hi = rc.int_range(dt)
    s = {lo, lo + 1, hi - 1, hi, 0, 1, 2, 3, -1, -2, hi // 2, hi // 3, lo // 2, 100, -100, 12345, -999}
    for k in (7, 8, 15, 16, 23, 24, 31, 32, 39, 47, 52):
        for d in (-1, 0, 1):
            s.add((1 << k) + d)
            s.add(-(1 << k) + d)
    lim = (1 << 53) - 2
    return sorted(v for v in s if lo <= v <= hi and abs(v) <= lim)


def phys_request(dt, factor, r, delta, as_int=True):
    """The float (or int) closest to (r + delta) * factor; None when outside the domain."""
    lo, hi = rc.int_range(dt)
    if r == lo and delta < 0 and abs(delta) >= Fraction(1, 2):
        delta = -delta
    if r == hi and delta >= Fraction(1, 2):
        delta = -delta
    xq = (r + delta) * Fraction(factor)
    x = int(xq) if (xq.denominator == 1 and as_int) else float(xq)
    probe = {"dt": dt, "factor": factor, "init": 0, "ops": [{"op": "phys", "x": x}]}
    return x if domain(probe) is None else None


def phys_cases(thorough):
    i = 0
    for fi, factor in enumerate(factors()):
        types = INT_TYPES if thorough else [INT_TYPES[(fi * 5 + j * 3) % len(INT_TYPES)] for j in range(5)]
        for dt in dict.fromkeys(types):
            targets = raw_targets(dt)
            ops = []
            for j, r in enumerate(targets):
                if not thorough and j % 3 != fi % 3 and r not in rc.int_range(dt):
                    continue
                nd = 4 if thorough else 2
                for d in range(nd):
                    delta = PHYS_DELTAS[(j * nd + d + fi) % len(PHYS_DELTAS)]
                    x = phys_request(dt, factor, r, delta, as_int=(j + d) % 2 == 0)
                    if x is None:
                        continue
                    ops.append({"op": "phys", "x": x, "api": "rw" if (j + d + fi) % 4 == 0 else "attr"})
            for c in range(0, len(ops), 6):
                i += 1
                yield base_case(dt, ops[c:c + 6], init=targets[c % len(targets)], factor=factor, salt=i)
    # requests beyond exact float integers: generated on purpose, excluded by construction (counted)
    for dt in (rc.UNSIGNED64, rc.INTEGER64, rc.UNSIGNED56):
        lo, hi = rc.int_range(dt)
        for x in (hi, (1 << 53) + 1, float(1 << 54)):
            if x <= hi:
                yield base_case(dt, [{"op": "phys", "x": x}], factor=1, salt=3)


def desc_cases(thorough):
    i = 0
    for n in range(1, 21):
        for dt in INT_TYPES:
            if not thorough and (n + INT_TYPES.index(dt)) % 2 and n not in (1, 2, 20):
                continue
            i += 1
            descs = default_descs(dt, n, salt=i)
            n = len(descs)          # 8-bit types have enough values, kept for safety
            texts = [t for _, t in descs]
            values = [v for v, _ in descs]
            lo, hi = rc.int_range(dt)
            unknown_texts = [t for t in (texts[0] + "x", texts[0][:-1] or "q", texts[0].swapcase(), "nope",
                                         texts[-1] + " ", str(values[0])) if t not in texts and t]
            undescribed = [v for v in (4, hi - 2, lo + 2, 55) if lo <= v <= hi and v not in values]
            ops = []
            for j, (v, t) in enumerate(descs):
                api = "rw" if (i + j) % 3 == 0 else "attr"
                ops.append({"op": "desc", "text": t, "api": api})
                other = values[(j * 7 + 3) % n]
                ops.append({"op": "raw", "v": other})
                ops.append({"op": "desc_get", "api": api})
            for j, t in enumerate(unknown_texts):
                ops.append({"op": "desc", "text": t, "api": "rw" if j % 2 else "attr"})
            for v in undescribed:
                ops.append({"op": "raw", "v": v})
                ops.append({"op": "desc_get"})
            for c in range(0, len(ops), 8):
                yield base_case(dt, ops[c:c + 8], init=values[(c // 8) % n], descs=descs, salt=i + c,
                                factor=(1, 0.5, -3, 1e-3)[i % 4])
            # the table is edited after it was used: the new text names the value, the old one nothing
            j = i % n
            yield base_case(dt, [{"op": "desc", "text": texts[j]},
                                 {"op": "redesc", "value": values[j], "text": texts[j] + " (new)"},
                                 {"op": "desc_get"},
                                 {"op": "desc", "text": texts[(j + 1) % n], "api": "rw"},
                                 {"op": "desc", "text": texts[j] + " (new)"},
                                 {"op": "desc", "text": texts[j]}] if n > 1 else
                            [{"op": "desc", "text": texts[0]},
                             {"op": "redesc", "value": values[0], "text": texts[0] + " (new)"},
                             {"op": "desc", "text": texts[0] + " (new)"}, {"op": "desc", "text": texts[0]}],
                            init=values[0], descs=descs, salt=i, factor=1)


# -- Hypothesis: mixed histories ------------------------------------------------------------------
def _raw_strategy(dt):
    lo, hi = rc.int_range(dt)
    w = _w(dt)
    near = [v for v in (lo, lo + 1, hi - 1, hi, 0, 1, -1, 2, hi // 2) if lo <= v <= hi]
    pows = [p for k in range(1, w) for p in ((1 << k) - 1, 1 << k, -(1 << k)) if lo <= p <= hi]
    return st.one_of(st.sampled_from(near), st.sampled_from(pows), st.integers(lo, hi))


_FACTORS = factors()


def _factor_strategy():
    mant = st.floats(min_value=1.0, max_value=9.999, allow_nan=False, allow_infinity=False)
    rnd = st.builds(lambda m, e, neg: float(Fraction(m) * Fraction(10) ** e) * (-1 if neg else 1),
                    mant, st.integers(-6, 6), st.booleans())
    return st.one_of(st.sampled_from(_FACTORS), st.sampled_from(_FACTORS), rnd,
                     st.integers(1, 1000).map(lambda v: v), st.integers(-50, -1))


_TEXT = st.one_of(st.sampled_from(TEXT_POOL),
                  st.text(st.characters(min_codepoint=32, max_codepoint=0x17F, exclude_categories=["Cs", "Cc"]),
                          min_size=1, max_size=12))


@st.composite
def mixed_case(draw, kinds):
    dt = draw(st.sampled_from(INT_TYPES))
    lo_v, hi_v = rc.int_range(dt)
    factor = draw(_factor_strategy())
    n = draw(st.one_of(st.integers(1, 4), st.integers(1, 20)))
    values = draw(st.lists(_raw_strategy(dt), min_size=1, max_size=n, unique=True))
    texts = draw(st.lists(_TEXT, min_size=len(values), max_size=len(values), unique=True))
    descs = [[v, t] for v, t in zip(values, texts)]
    values, texts, retired = list(values), list(texts), []
    usable = min(32, _usable(dt))
    ops = []
    for _ in range(draw(st.integers(1, 8))):
        kind = draw(st.sampled_from(kinds))
        if kind == "raw":
            ops.append({"op": "raw", "v": draw(st.one_of(_raw_strategy(dt), st.sampled_from(values)))})
            if draw(st.integers(0, 2)) == 0:
                ops[-1]["via"] = "data"
        elif kind == "phys":
            lim = (1 << 53) - 2
            r = draw(_raw_strategy(dt))
            r = max(-lim, min(lim, r))
            delta = draw(st.one_of(st.sampled_from(PHYS_DELTAS),
                                   st.fractions(Fraction(-1, 2), Fraction(1, 2), max_denominator=10 ** 6)))
            x = phys_request(dt, factor, r, delta, as_int=draw(st.booleans()))
            if x is None:           # at the very edge of the range: move inwards
                x = phys_request(dt, factor, r // 2, Fraction(0), as_int=False)
            if x is None:
                continue
            ops.append({"op": "phys", "x": x, "api": draw(st.sampled_from(["attr", "attr", "rw"]))})
        elif kind == "desc" and draw(st.integers(0, 5)) == 0:
            # the table is edited between uses: another text for a described value, or one more entry
            if draw(st.integers(0, 2)) or len(values) >= 20:
                j = draw(st.integers(0, len(values) - 1))
            else:
                j = len(values)
                v = draw(_raw_strategy(dt))
                if v in values:
                    continue
                values.append(v)
                texts.append(None)
            t = draw(_TEXT)
            while t in texts:
                t += "#"
            if texts[j] is not None:
                retired.append(texts[j])
            texts[j] = t
            ops.append({"op": "redesc", "value": values[j], "text": t})
        elif kind == "desc":
            if retired and draw(st.integers(0, 3)) == 0:
                t = draw(st.sampled_from(retired))      # a text that named a value earlier and no longer does
                if t in texts:
                    continue
            elif draw(st.integers(0, 4)) == 0:
                t = draw(st.one_of(_TEXT, st.sampled_from(texts).map(lambda s: s + " "),
                                   st.sampled_from(texts).map(lambda s: s.swapcase()),
                                   st.sampled_from(texts).map(lambda s: s[:-1] or "?")))
                while t in texts:
                    t += "#"
            else:
                t = draw(st.sampled_from(texts))
            ops.append({"op": "desc", "text": t, "api": draw(st.sampled_from(["attr", "attr", "rw"]))})
        elif kind == "desc_get":
            ops.append({"op": "desc_get", "api": draw(st.sampled_from(["attr", "attr", "rw"]))})
        else:
            lo = draw(st.integers(0, usable - 1))
            hi = draw(st.one_of(st.just(lo), st.integers(lo, usable - 1), st.integers(lo, min(usable - 1, lo + 4))))
            sps = ["list", "slice", "name", "slice1"]
            if lo == hi:
                sps += ["int", "int"]
            if lo == 0:
                sps.append("slice0")
            if hi > lo:
                sps.append("list_rev")
            op = {"op": kind, "sp": draw(st.sampled_from(sps)), "lo": lo, "hi": hi}
            if kind == "bset":
                ones = (1 << (hi - lo + 1)) - 1
                op["v"] = draw(st.one_of(st.sampled_from([0, 1, ones]), st.integers(0, ones)))
            ops.append(op)
    if all(op["op"] == "raw" for op in ops):
        ops.append({"op": "bget", "sp": "list", "lo": 0, "hi": usable - 1})
    carriers = draw(st.sampled_from([["local"], ["remote"], ["pdo"], ["local", "remote", "pdo"],
                                     ["pdo", "local"], ["remote", "pdo"]]))
    room = (64 - _w(dt)) // 8
    ndec = draw(st.integers(0, 2))
    decoys = []
    for _ in range(ndec):
        a = draw(st.integers(0, usable - 1))
        decoys.append([a, draw(st.integers(a, usable - 1))])
    return {"dt": dt, "factor": factor, "descs": descs,
            "init": draw(st.one_of(_raw_strategy(dt), st.sampled_from(values))),
            "ops": ops, "carriers": carriers,
            "where": draw(st.sampled_from(["var", "record", "array"])), "sub": draw(st.integers(1, 254)),
            "pdo_side": draw(st.sampled_from(["tpdo", "rpdo"])), "hold": draw(st.booleans()),
            "pad": draw(st.integers(0, min(3, room))), "decoys": decoys,
            "padbits": draw(st.sampled_from([0, 0, 1, 3, 4, 7])) if room >= 4 else 0,
            "sibling": draw(st.sampled_from([0, 0, 0, 1, 5, 16, 31]))}


def _showcase():
    from itertools import islice
    for gen in (phys_cases(False), desc_cases(False), bit_cases(False), signbit_cases()):
        for case in islice(gen, 40, 400, 170):
            yield case


ALL_KINDS = ["raw", "phys", "phys", "desc", "desc", "desc_get", "bset", "bset", "bget"]


def search(ctx):
    thorough = ctx.tier == "thorough"
    # a few cases of every family first, so that the evidence samples show all of them
    ctx.enumerate(_showcase())
    ctx.enumerate(bit_cases(thorough),
                  "all 528 contiguous bit ranges within 32 bits x spellings x carriers"
                  + (" x every carrier type" if thorough else " (UNSIGNED32 + one rotating type)"))
    ctx.enumerate(signbit_cases(), "signed types <= 32 bits: reading every field that ends at the sign bit")
    ctx.enumerate(phys_cases(thorough), "factors +-m*10^e (e=-6..6), small ints, binary fractions x types x "
                                        "boundary raws x offsets in the rounding interval")
    ctx.enumerate(desc_cases(thorough), "description tables of every size 1..20 x types")
    ctx.hypothesis(mixed_case(ALL_KINDS), 4000 if thorough else 500, salt=1)
    ctx.hypothesis(mixed_case(["phys", "phys", "raw"]), 2000 if thorough else 250, salt=2)
    ctx.hypothesis(mixed_case(["bset", "bget", "bset", "raw"]), 2000 if thorough else 250, salt=3)
