"""C19 - CiA 402 state decoding and commanded transitions follow the drive state machine.

SUT: canopen.profiles.p402.BaseNode402 (.state getter/setter, _next_state,
_change_state, controlword, statusword, check_statusword, op_mode setter,
is_op_mode_supported).  Peer: harness.ref_c19.RefDrive402, an independent
CiA 402 axis on the simulated bus (FSA transitions 0..16, automatic transitions
after k statusword observations, free status bits, SDO objects, RPDO consumer,
TPDO producer).

Clause -> case family
  "every 16-bit statusword is reported as exactly the state whose pattern it
   matches, or unknown"                      fam=decode  (all 65 536 words; carried
                                             by SDO, by an event TPDO at byte offset
                                             0, by a TPDO at byte offset 1 / 4, by
                                             the second / the first of two valid
                                             TPDOs that both map the statusword:
                                             the word received last counts)
  "for every (state, target) pair assigning a commandable target brings the
   drive into that state in finitely many steps"
                                             fam=pair    8 x 8 pairs x k x transport
                                             x status-bit patterns x PDO layout
                                             fam=hist    Hypothesis histories of
                                             assignments, faults, mode changes
  "... without ever enabling operation unless the target is OPERATION ENABLED or
   QUICK STOP ACTIVE"                        fam=pair / fam=hist: entries of the
                                             drive into OPERATION ENABLED counted
                                             per assignment
  "assigning a state that cannot be commanded is refused"
                                             fam=pair / hist with target in {NOT
                                             READY TO SWITCH ON, FAULT REACTION
                                             ACTIVE, FAULT}: exception (or silent
                                             no-op when the drive is in that state
                                             at the master's first look - not after
                                             watching it get there by itself, see
                                             REFUSE_LOOKS_*) and no controlword on
                                             the wire
  "automatic transitions before or after the library's status reads"
                                             k observations of the transient state
                                             (reads of 0x6041, bus cycles in the
                                             cyclic variants, waiting periods with
                                             event-driven TPDOs): every k in 0..24,
                                             31, 40 with the statusword by SDO (the
                                             transition is swept across every read
                                             of the first assignment steps), sparser
                                             sets elsewhere (k_values)
  "controlword and statusword carried by SDO or by PDO"
                                             transports sdo | cw (RPDO + SDO status)
                                             | sw (SDO + event TPDO) | ev (event
                                             PDOs; layouts K / L: statusword in two
                                             valid TPDOs, the carrier is not the
                                             first) | cyc (SYNC-cyclic TPDO, one bus
                                             cycle per wait_for_reception) | cycr
                                             (cyclic RPDO task too) | free (timer
                                             TPDO sent by a free running thread)
  "an operation mode the drive does not advertise is refused, a supported one is
   written to the drive as its CiA 402 mode code"
                                             fam=mode    10 modes x all 1024 values of
                                             bits 0..9 of 0x6502 (+ pseudo-random
                                             upper bits), by SDO and by RPDO
                                             fam=hist    mode changes inside histories
                                             (cached 0x6502, cyclic RPDO)

  "... brings a standard-conformant drive into that state in finitely many steps"
   when one step is not confirmed at the first attempt
                                             fam=pair / hist with "late": n - the n-th
                                             commanded transition of the assignment takes
                                             the drive longer than the library's per-step
                                             limit (LateDrive; it is complete when the
                                             library repeats the command): every (state,
                                             commandable target) x step 1..4 x statusword
                                             by SDO / by a periodic TPDO whose bus cycle
                                             has a real length (TimedCondition), all three
                                             state time-outs canopen's own; histories with
                                             a late step in several assignments

Excluded by construction (counted, genuine defect of the unchanged tree, see
EXCL_EVT): D-C19-3 statusword in an event-driven TPDO that was received twice
(counts as periodic) + automatic transition 1 / 14 pending when a commandable
target is assigned.  (D-C19-1 automatic transition between two status reads and
D-C19-2 fault reset without a rising edge of bit 7 are repaired and searched.)
Not covered: targets outside the 8 states ('DISABLE VOLTAGE', arbitrary strings);
faults occurring *during* an assignment; frames lost on the bus (the property names no bus
faults; for the library a lost controlword frame looks like the late transition that is
covered); more than one late transition in one assignment (the library's overall limit
is two per-step limits); late transitions with event-driven statusword TPDOs (D-C19-3)
or a cyclic RPDO task; homing; the op_mode getter; a silent
synchronous TPDO in front of the carrier together with k > 0 or a timer-only
carrier (the library waits for the first TPDO that maps the statusword).
"""
import struct
import time

from hypothesis import strategies as st

from harness import ref_c19 as R
from harness.core import Discrepancy, Outcome
from harness.odutil import build_od
from harness.simbus import Frame, Hub

PROPERTY = "C19"
LEVEL = "exploration"
RULE = ("decode: every 16-bit statusword, delivered by SDO read of 0x6041 or in a TPDO (three layouts with one "
        "TPDO; two layouts with the statusword in two valid TPDOs, the word received last - by the second or by "
        "the first of them - is the one that counts), "
        "node.state compared with the CiA 402 bit-pattern table (string patterns, 'UNKNOWN' when none "
        "matches). pair: every (drive state, target) of the 8 x 8 states x k observations before "
        "an automatic transition (statusword by SDO: every k in 0..24, 31, 40; bus cycles: 0..3, 5, 9, 14; "
        "event-driven TPDO: 0..3, 9) x 7 transports (SDO / mixed / event PDO / SYNC-cyclic PDO in lock-step / "
        "cyclic RPDO / timer PDO from a free-running thread) x 4 free-status-bit sequences (one for k > 3) x PDO "
        "layout (incl. "
        "invalid maps that carry the words, the controlword mapped in two valid RPDOs, the statusword mapped in "
        "two valid TPDOs of which the first is silent or both report) x "
        "setup (configuration read by SDO or set by hand) x last controlword of the drive; oracle = "
        "reference drive's final state, its count of entries into OPERATION ENABLED during the assignment "
        "and the controlwords it received; an uncommandable target must raise unless the drive is in that state "
        "at the master's first look (a normal return after more than 8 SDO reads / 2 TPDO observations of a drive "
        "in another state is not a refusal, even if the drive got there by itself meanwhile). mode: 10 CiA 402 modes x all 1024 values of bits 0..9 of 0x6502; "
        "oracle = independent mode -> (code, bit) table, writes to 0x6060 seen by the drive. hist: enumerated "
        "short histories on one node object (state x first target x second target; assignment, fault, assignment; "
        "every ordered pair of modes x which of the two the drive advertises) and Hypothesis "
        "histories of assignments, faults (transition 13) and mode changes on one drive. late: every (state, "
        "commandable target) x n in 1..4 x transport (SDO; RPDO + SDO status; periodic TPDO with a bus cycle of "
        "10 ms real time, a wait shorter than the time to the next cycle receives nothing) where the n-th "
        "commanded transition of the assignment is performed late (not within canopen's per-step limit; done "
        "when the command is repeated, at the latest 0.7 s after it) - quick: one n and one transport per pair - "
        "and histories with such a step in three of four assignments on one node object; canopen's own "
        "TIMEOUT_CHECK_TPDO / _SWITCH_STATE_SINGLE / _SWITCH_STATE_FINAL; same oracle as pair (target reached, no "
        "exception, operation not enabled on the way). Non-trivial: decode "
        "= word other than the 8 bare state values; pair = needs >= 2 transitions, involves an automatic "
        "transition, meets a late transition or must be refused; mode = always; hist = >= 2 effective operations. Distinct = "
        "canonical JSON of the case.")
ASSUMPTIONS = [
    "the drive reacts to a controlword at once; automatic transitions (0/1, 14, and 12 for quick-stop option "
    "codes 1..3) take place after k observations of the statusword (k = 0: immediately)",
    "target QUICK STOP ACTIVE is only demanded from drives whose quick-stop option keeps that state (5..8)",
    "at least one TPDO cycle has been received before the first assignment (the drive announces its TPDOs "
    "after set-up); in event-driven PDO variants the drive answers a controlword within the write; an "
    "automatic transition that takes k > 0 observations advances there with every SDO read of 0x6041 and with "
    "every period the master spends waiting for a TPDO (PdoMap.receive_condition replaced by a stand-in whose "
    "wait() lets that time pass and returns; the change is reported by event TPDO when it happens)",
    "D-C19-3 (reported, excluded and counted): once an event-driven statusword TPDO has been received twice the "
    "library treats it as periodic and gives up after TIMEOUT_CHECK_TPDO while an automatic transition 1 / 14 "
    "is pending; histories with k > 0 on event-driven TPDOs let the drive send its TPDOs twice before the "
    "first operation so that the excluded class is exactly 'commandable target assigned while that transition "
    "is pending'; the single assignments of the pair family start after one TPDO (the library then reads 0x6041 "
    "by SDO while it waits) and use drives that act on reception only, so that no second TPDO arrives before "
    "the last wait: they are not affected",
    "refusal: a state query may cost up to 8 SDO reads (one per state pattern) or use the last TPDO plus up to "
    "2 fresh ones; a silent return for an uncommandable target is accepted as 'the drive is in that state' only "
    "within that many observations of a drive in another state",
    "statusword mapped in several valid TPDOs: the value of the TPDO received last is the drive's statusword",
    "mode 0 (NO MODE) needs no bit in 0x6502: CiA 402 defines the value 0 of 0x6060 for every drive",
    "a supported mode: the code must reach the drive; a RuntimeError afterwards (op_mode documents it for a switch "
    "that is not confirmed in time) is accepted, any other exception is not",
    "'refused' accepts any exception type; the state time-outs are canopen's own (0.4 s / 0.8 s) in the "
    "single-threaded variants (only TIMEOUT_CHECK_TPDO / TIMEOUT_SWITCH_OP_MODE are shortened: a frame that "
    "has not arrived when the library starts waiting never will) and are lengthened in the threaded one",
    "cyclic variants: PdoMap.receive_condition (public attribute) is replaced by a lock-step stand-in whose "
    "wait() lets one bus cycle of the drive pass; the threaded variant (free) keeps canopen's Condition and is "
    "only used when no automatic transition can be pending, so the outcome is interleaving-independent",
    "late transition: CiA 402 sets no time limit for a commanded transition, so a drive that needs longer than "
    "canopen's per-step limit (TIMEOUT_SWITCH_STATE_SINGLE) for ONE transition of an assignment is conformant; the "
    "property's 'finitely many steps' is read as: the step may be repeated, and the drive is in the target state "
    "within canopen's own overall limit (TIMEOUT_SWITCH_STATE_FINAL = two per-step limits, counted while no step "
    "succeeds). The lateness is modelled without a race against this process's speed: the transition is complete "
    "when the master's next controlword arrives (the unchanged library repeats the command after the per-step "
    "limit, i.e. at half the overall limit: 2x slack) or 0.7 s after the command, whichever is first. Only one "
    "late transition per assignment, none with event-driven statusword TPDOs (D-C19-3) or level-evaluating drives",
    "periodic TPDO with a real bus period (late-transition cases): a wait_for_reception whose time-out is at least "
    "the time to the next cycle always receives a TPDO (no time-out can be caused by this process being slow); a "
    "shorter one receives nothing - that is what a periodic TPDO is",
    "both drive styles are accepted as conformant: commands acting on reception of the controlword, or the "
    "latched controlword evaluated again in every new state (lvl); fault reset is edge-triggered in both",
]
BUDGET = {"quick": 150, "thorough": 300}

NODE = 5

TRANSPORTS = {
    # name: (layouts, tpdo transmission type, rpdo transmission type, thread)
    "sdo": (["none", "G"], 255, 255, None),
    "cw": (["CW"], 255, 255, None),
    "sw": (["SW"], 255, 255, None),
    "ev": (["A", "B", "C", "D", "E", "F", "H", "I", "J", "K", "L"], 255, 255, None),
    "cyc": (["A", "B", "C", "D", "L"], 1, 255, "lockstep"),
    "cycr": (["A", "B", "C", "D"], 1, 1, "lockstep"),
    "free": (["A", "B", "C", "D", "I", "J", "L"], 255, 255, "free"),
}
TR_GROUP = {"sdo": "sdo-status", "cw": "sdo-status", "sw": "event-tpdo", "ev": "event-tpdo",
            "cyc": "cyclic-tpdo", "cycr": "cyclic-tpdo", "free": "timer-tpdo-thread"}
# transports in which an automatic transition can be delayed by k > 0 observations.  sw / ev: the
# statusword comes by event-driven TPDO; an observation is an SDO read of 0x6041 or a stretch of
# time in which the master waits for a TPDO (R.RefDrive402.idle_slice)
K_TRANSPORTS = ("sdo", "cw", "cyc", "cycr", "sw", "ev")
EV_K_TRANSPORTS = ("sw", "ev")
# layouts whose first valid TPDO with the statusword is a synchronous one that never comes
SILENT_FIRST = ("K",)
# layouts that can only be configured by reading them from the drive
READ_ONLY_LAYOUTS = ("E", "F", "G", "H", "I", "J", "K")


_ods = {}


def _od(with_pdo):
    # the dictionary is only read by the code under test; one object per shape
    od = _ods.get(with_pdo)
    if od is None:
        od = _ods[with_pdo] = build_od(R.od_spec(with_pdo))
    return od


class BadCase(Exception):
    """The case dict is outside what run_case is defined for (generator bug)."""


class SetupFailed(Exception):
    """The library raised while the node object was being set up against a conformant drive."""


# ---- a drive that performs one commanded transition late ---------------------------
# transports of the late-transition cases: statusword by SDO or by a periodic TPDO, controlword by SDO
# or by an event-driven RPDO (event-driven statusword TPDOs: D-C19-3 / EXCL_EVT applies to every wait;
# cyclic RPDO task: the repeated command cannot be told from the stream)
LATE_TRANSPORTS = ("sdo", "cw", "cyc")
LATE_PERIOD = 0.01      # seconds between two bus cycles in the cyclic late-transition cases


def _has_late(case):
    return bool(case.get("late")) or any(op.get("late") for op in case.get("ops", ()))


class LateDrive(R.RefDrive402):
    """A conformant drive one of whose commanded transitions takes its time (CiA 402 sets no limit:
    brake release, DC link charging): the n-th commanded transition after arm_late(n) is not
    performed on reception of its controlword but is complete - at the latest - when the master's next
    controlword arrives, or LATE_AFTER seconds after the command, whichever comes first.  Until then the
    statusword shows the old state.  For the library this is a drive that is slower than
    TIMEOUT_SWITCH_STATE_SINGLE and faster than TIMEOUT_SWITCH_STATE_FINAL, without the outcome
    depending on how fast this process runs: the unchanged library repeats the command after the step
    limit, and by then the transition is done."""

    LATE_AFTER = 0.7
    late_arm = None
    late_pending = None
    late_used = 0
    _deferring = False
    _deferred = False

    def arm_late(self, n):
        self.late_arm = n
        self.late_used = 0

    def disarm_late(self):
        self.late_arm = None
        self._complete_late()

    def _enter(self, state, cause):
        if self._deferring and self.late_arm is not None and cause[:1] == "t" and cause != "t13":
            self.late_arm -= 1
            if self.late_arm <= 0:
                self.late_arm = None
                self._deferred = True
                return
        R.RefDrive402._enter(self, state, cause)

    def _command(self, cw, prev, sfx):
        self._complete_late()
        if self.late_arm is None:
            return R.RefDrive402._command(self, cw, prev, sfx)
        self._deferring, self._deferred = True, False
        try:
            R.RefDrive402._command(self, cw, prev, sfx)
        finally:
            self._deferring = False
        if self._deferred:
            self._deferred = False
            self.late_pending = (cw, prev, time.monotonic())
            self.late_used += 1

    def _complete_late(self):
        p, self.late_pending = self.late_pending, None
        if p is not None:
            R.RefDrive402._command(self, p[0], p[1], "+late")

    def observe(self):
        p = self.late_pending
        if p is not None and time.monotonic() - p[2] >= self.LATE_AFTER:
            self._complete_late()
        R.RefDrive402.observe(self)


class TimedCondition(R.LockstepCondition):
    """Lock-step stand-in for PdoMap.receive_condition with a bus cycle of a real length: the next
    cycle (SYNC, TPDOs) is due ``period`` seconds after the last one.  wait(timeout) sleeps until it
    is due and lets it take place - unless the timeout ends before, then it sleeps that long and nothing
    is received.  A wait of at least one period always sees a TPDO, however slow this process is."""

    def __init__(self, on_cycle, period):
        R.LockstepCondition.__init__(self, on_cycle)
        self.period = period
        self.due = time.monotonic() + period

    def tick(self):
        self.due = time.monotonic() + self.period
        self.on_wait()

    def wait(self, timeout=None):
        self.waits += 1
        left = self.due - time.monotonic()
        if timeout is not None and timeout < left:
            time.sleep(max(timeout, 0))
            return False
        if left > 0:
            time.sleep(left)
        self.tick()
        return True


class Rig:
    def __init__(self, case, start=R.SOD, force_sw=None):
        from canopen.profiles.p402 import BaseNode402
        tr = case.get("tr", "sdo")
        layouts, tpdo_tt, rpdo_tt, thread = TRANSPORTS[tr]
        if case.get("ev_tt") and tpdo_tt == 255 and rpdo_tt == 255:
            # the other event-driven transmission type (254 = manufacturer specific event)
            tpdo_tt = rpdo_tt = case["ev_tt"]
        layout = case.get("layout", layouts[0])
        if layout not in layouts and not (tr == "ev" and layout == "M"):
            raise BadCase(f"layout {layout} with transport {tr}")
        k = case.get("k", 0)
        if k and tr not in K_TRANSPORTS:
            raise BadCase(f"k={k} with transport {tr}")
        if k and tr in EV_K_TRANSPORTS:
            if layout in SILENT_FIRST or case.get("evt"):
                raise BadCase(f"k={k} with transport {tr}, layout {layout}, evt {case.get('evt')}")
            thread = "evstep"
        late = _has_late(case)
        if late and (tr not in LATE_TRANSPORTS or case.get("lvl") or case.get("cw_latency")
                     or case.get("qs", "stay") != "stay"):
            raise BadCase(f"late transition with transport {tr} / lvl / cw_latency / qs=auto")
        self.tr = tr
        self.thread_mode = thread
        self.hub = Hub()
        self.timed = None
        self.drive = (LateDrive if late else R.RefDrive402)(
            NODE, start=start, k=k, extras=case.get("extras", [0]), qs=case.get("qs", "stay"),
            cw0=case.get("cw0", 0), supported=case.get("supported", 0), display=case.get("display0", 0),
            kmode=case.get("kmode", 0), layout=layout, tpdo_tt=tpdo_tt, rpdo_tt=rpdo_tt,
            level=case.get("lvl", False), timer_only=thread == "free", evt=case.get("evt", 0),
            cw_latency=case.get("cw_latency", 0.0))
        self.drive.force_sw = force_sw
        self.drive.attach(self.hub)
        self.net, self.port = self.hub.attach("master")
        with_pdo = layout != "none" or case.get("od_pdo", True)
        self.node = node = BaseNode402(NODE, _od(with_pdo))
        self.net.add_node(node)
        node.sdo.RESPONSE_TIMEOUT = 0.05
        if thread == "free":
            # real threads: far above the 0.3 ms cycle, so that only a dead bus times out
            node.TIMEOUT_CHECK_TPDO = 5.0
            node.TIMEOUT_SWITCH_STATE_SINGLE = 3.0
            node.TIMEOUT_SWITCH_STATE_FINAL = 6.0
            node.TIMEOUT_SWITCH_OP_MODE = 3.0
        else:
            # single-threaded: a frame that has not arrived when the library starts to wait never
            # will; the state time-outs keep canopen's values (0.4 s / 0.8 s)
            if not late:
                # (late transitions: all three state time-outs stay canopen's own, see LateDrive)
                node.TIMEOUT_CHECK_TPDO = 0.001
            node.TIMEOUT_SWITCH_OP_MODE = 0.05
        if case.get("cw_latency"):
            # a drive that takes its time for every transition, but far less than the per-step limit:
            # the limit for "no progress" (FINAL) is not a deadline for the whole multi-step change
            node.TIMEOUT_SWITCH_STATE_SINGLE = 5.0
            node.TIMEOUT_SWITCH_STATE_FINAL = 0.2
        node.nmt.state = "OPERATIONAL"
        if case.get("setup", "read") == "read" or layout in READ_ONLY_LAYOUTS:
            try:
                node.setup_402_state_machine(read_pdos=True)
            except Exception as e:
                raise SetupFailed(f"setup_402_state_machine(read_pdos=True): {type(e).__name__}: {e}") from e
        else:
            for kind, maps, bases, tt in (("rpdo", node.rpdo, R.RPDO_BASE, rpdo_tt),
                                          ("tpdo", node.tpdo, R.TPDO_BASE, tpdo_tt)):
                for n in maps:
                    m = maps[n]
                    entries = self.drive.layout[kind].get(n)
                    m.clear()
                    m.cob_id = bases[n - 1] + NODE
                    m.enabled = bool(entries)
                    m.trans_type = tt
                    if case.get("evt"):
                        m.event_timer = case["evt"]
                    for index, bits in entries or []:
                        m.add_variable(index, 0, bits)
            try:
                node.setup_402_state_machine(read_pdos=False)
            except Exception as e:
                raise SetupFailed(f"setup_402_state_machine(read_pdos=False) with the maps configured in the "
                                  f"object: {type(e).__name__}: {e}") from e
            # the documented contract of read_pdos=False: the mappings configured in the object are used
            for kind, maps in (("rpdo", node.rpdo), ("tpdo", node.tpdo)):
                for n in maps:
                    want = [(i, b) for i, b in (self.drive.layout[kind].get(n) or [])]
                    got = [(v.index, v.length) for v in maps[n].map]
                    if got != want:
                        raise SetupFailed(f"setup_402_state_machine(read_pdos=False) changed {kind}[{n}] from "
                                          f"{want} to {got}")
        self.sw_by_sdo = not any(i == 0x6041 for e in self.drive.layout["tpdo"].values() for i, _b in e)
        # the first valid TPDO that maps the statusword (None: the statusword goes by SDO)
        valid = dict(self.drive.layout.get("tpdo_sync", {}))
        valid.update(self.drive.layout["tpdo"])
        self.sw_tpdo = min((n for n, e in valid.items() if any(i == 0x6041 for i, _b in e)), default=None)
        self.feeder = None
        if tr == "cycr":
            # the application fills the RPDOs with the values in force, then starts them;
            # the drive has seen these frames before (they are not news of the case)
            for m in node.rpdo.values():
                if m.enabled:
                    for var in m:
                        if var.index == 0x6040:
                            var.raw = self.drive.last_cw
                    self.drive.last_cyclic[m.cob_id] = bytes(m.data)
                    m.start(0.001)
        # the setup traffic is not part of what is judged
        self.drive.sw_reads = 0
        del self.drive.observed[:]
        self.drive.tpdo_sent.clear()
        for _ in range(case.get("announce", 1)):
            self.drive.announce()
        if thread == "lockstep" and late:
            # the bus cycle has a real period: a wait shorter than the time to the next cycle sees no TPDO
            self.timed = TimedCondition(self._bus_cycle, LATE_PERIOD)
            for m in node.tpdo.values():
                if m.enabled:
                    m.receive_condition = self.timed
        elif thread == "lockstep":
            for m in node.tpdo.values():
                if m.enabled:
                    m.receive_condition = R.LockstepCondition(self.cycle)
        elif thread == "evstep":
            # event-driven TPDOs and an automatic transition that takes its time: while the master
            # waits for a TPDO, time passes for the drive (single-threaded, deterministic)
            for m in node.tpdo.values():
                if m.enabled:
                    m.receive_condition = R.LockstepCondition(self.drive.idle_slice)
        elif thread == "free":
            self.feeder = R.Feeder(self.drive, self.hub)
            self.feeder.start()

    def _bus_cycle(self):
        self.drive.clock_tick(self.hub.live_tasks())

    def cycle(self):
        if self.timed is not None:
            self.timed.tick()
        else:
            self._bus_cycle()

    def settle(self):
        """Let one bus cycle pass between two user actions (cyclic variants)."""
        if self.thread_mode == "lockstep":
            self.cycle()
        elif self.thread_mode == "free":
            n = self.feeder.cycles
            t_end = time.monotonic() + 20
            while self.feeder.cycles < n + 2:
                if self.feeder.error is not None or time.monotonic() > t_end:
                    raise RuntimeError(f"clock thread is not running: {self.feeder.error}")
                time.sleep(0.0002)

    def close(self):
        if self.feeder is not None:
            self.feeder.finish()
            self.feeder = None
        for m in self.node.rpdo.values():
            m.stop()


# ---------------------------------------------------------------------------------
def _assign(rig, target, D, tag, late=None):
    """node.state = target, judged against the reference drive.  Returns a dict of
    facts for classification, or the string 'excluded:<reason>'.  late = n: the n-th
    commanded transition of this assignment is a late one (LateDrive)."""
    drive = rig.drive
    pre = drive.state
    if late:
        drive.arm_late(late)
    n_cw = len(drive.controlwords)
    n_en = drive.enables
    n_tr = len(drive.trace)
    n_obs = len(drive.observed)
    exc = None
    try:
        rig.node.state = target
    except Exception as e:  # judged below
        exc = e
    cws = drive.controlwords[n_cw:]
    steps = drive.trace[n_tr:]
    enabled = drive.enables - n_en
    how = f"{tag}: from {pre} (k={drive.k}) to {target}: controlwords " \
          f"{_brief([hex(c) for c, _v in cws])}, drive went {_brief([R.SHORT[s] + '/' + c for s, c in steps])}, " \
          f"ends in {drive.state}"
    late_used = bool(late) and drive.late_used > 0
    if late_used:
        how += (f" (commanded transition no. {late} of this assignment was late: longer than the library's "
                f"per-step limit, complete when the command was repeated / after {drive.LATE_AFTER} s"
                f"{'; still pending' if drive.late_pending else ''})")
    if exc is not None:
        how += f", raised {type(exc).__name__}: {exc}"
    if isinstance(exc, R.Livelock):
        D.append(Discrepancy("C19/assign/no-termination", how))
    elif target in R.COMMANDABLE:
        if enabled and target not in (R.OE, R.QSA):
            D.append(Discrepancy("C19/assign/operation-enabled",
                                 f"{how} - operation was enabled {enabled}x although the target is {target}"))
        elif exc is not None:
            D.append(Discrepancy(f"C19/assign/raises/{type(exc).__name__}", how))
        elif drive.state != target:
            D.append(Discrepancy("C19/assign/wrong-final-state", how))
        else:
            try:
                seen = rig.node.state
            except Exception as e:
                seen = f"{type(e).__name__}: {e}"
            if seen != target:
                D.append(Discrepancy("C19/assign/view", f"{how} - afterwards node.state reports {seen!r}"))
    else:
        if cws:
            D.append(Discrepancy("C19/refuse/controlword-sent", how))
        elif exc is None and drive.state != target:
            D.append(Discrepancy("C19/refuse/accepted", f"{how} - no exception"))
        elif exc is None and rig.thread_mode != "free":
            # a silent return is only the accepted "the drive is in that state already" when the
            # master's first look at the drive can have shown the target: not when it went on
            # looking at a drive in another state until an automatic transition took it there
            waited = sum(1 for s in drive.observed[n_obs:] if s != target)
            if waited > (REFUSE_LOOKS_SDO if rig.sw_by_sdo else REFUSE_LOOKS_PDO):
                D.append(Discrepancy("C19/refuse/accepted",
                                     f"{how} - no exception: the assignment was made while the drive was in {pre}, "
                                     f"the master watched it in other states than {target} for {waited} statusword "
                                     f"observations and returned normally when it got there by itself"))
    if drive.bad_access:
        D.append(Discrepancy("C19/access", f"{how} - drive saw {drive.bad_access[:3]}"))
    autos = sum(1 for _s, c in steps if c.startswith("auto"))
    if late:
        drive.disarm_late()
    return {"pre": pre, "ncw": len(cws), "nsteps": len(steps) - autos, "autos": autos, "late": late_used}


# statusword observations of a drive that is not in the (uncommandable) target state after which
# a silent return no longer passes for "the drive is in that state already": one determination of
# the state may cost one SDO read per state pattern (8); with the statusword in a TPDO the master
# already holds a complete word when the assignment starts and may look at up to two fresh ones
REFUSE_LOOKS_SDO = 8
REFUSE_LOOKS_PDO = 2


def _brief(items, n=12):
    return items if len(items) <= n else items[:n] + [f"... {len(items)} in all"]


def _pair_kind(pre_case_start, target, facts, drive_k):
    if target in R.UNCOMMANDABLE:
        return "refuse-noop" if facts["pre"] == target else "refuse"
    n = facts["nsteps"]
    if facts["autos"] or pre_case_start in (R.NRTSO, R.FRA):
        return "auto-then-chain" if n >= 2 else "auto-then-direct" if n == 1 else "auto-only"
    return "same" if n == 0 else "direct" if n == 1 else "chain"


def _race_excluded(rig, target):
    """Defect D-C19-1 (reported): with the statusword read by SDO, a drive that
    leaves NOT READY TO SWITCH ON exactly between the library's second and third
    status read of an assignment (k = 2) makes the assignment raise ValueError
    ('Illegal state transition from SWITCH ON DISABLED to SWITCH ON DISABLED')."""
    # fixed in /repo (commit f92fafa): no longer excluded, the class is searched like any other
    return False


def run_pair(case):
    start, target = case["start"], case["target"]
    if case.get("qs") == "auto" and (target in (R.QSA, R.OE) or start != R.QSA):
        raise BadCase("qs=auto is only generated for start QSA and targets that leave it")
    rig = Rig(case, start=start)
    try:
        if _race_excluded(rig, target):
            return Outcome(excluded=EXCL_RACE)
        if _edge_excluded(rig.drive, target):
            return Outcome(excluded=EXCL_EDGE)
        if rig.thread_mode == "evstep" and case.get("lvl"):
            raise BadCase("pair with k > 0 on event-driven TPDOs is only generated for drives that act on reception")
        if _evt_excluded(rig, target) and not case.get("no_excl"):
            return Outcome(excluded=EXCL_EVT)
        D = []
        facts = _assign_k(rig, target, D, "pair", case.get("late"))
        if rig.feeder is not None and rig.feeder.error is not None:
            raise rig.feeder.error
    finally:
        rig.close()
    kind = _pair_kind(start, target, facts, case.get("k", 0))
    nontrivial = kind not in ("same", "direct", "refuse-noop", "auto-only")
    if case.get("late"):
        # a late step that the route of the library does not have: an ordinary assignment
        kind = f"late-step-{min(case['late'], 4)}/{kind}" if facts["late"] else f"late-unused/{kind}"
        nontrivial = nontrivial or facts["late"]
    return Outcome(nontrivial, f"pair/{TR_GROUP[case['tr']]}/{kind}", D)


KNOWN_EDGE_SIG = "C19/known/fault-reset-without-rising-edge-on-cyclic-rpdo"


def _edge_known(rig, target):
    """Known finding (known_findings.json, id C19-K1): with the controlword carried by a
    *cyclic* RPDO the library writes 0x0000 and 0x0080 into the map between two bus
    cycles, so the drive only ever sees 0x0080: when its last controlword already had
    bit 7 set there is no rising edge, it stays in FAULT and the assignment times out.
    (For SDO / event-driven transports this was repaired by commit 67b0c08.)"""
    return (rig.tr == "cycr" and rig.drive.state in (R.FAULT, R.FRA)
            and bool(rig.drive.last_cw & 0x80) and target in R.COMMANDABLE)


def _assign_k(rig, target, D, tag, late=None):
    """_assign, with the discrepancy of the known finding re-labelled so that it is
    matched by its own entry and nothing else is."""
    known = _edge_known(rig, target)
    n = len(D)
    facts = _assign(rig, target, D, tag, late)
    if known and len(D) == n + 1 and D[n].signature == "C19/assign/raises/RuntimeError":
        D[n].signature = KNOWN_EDGE_SIG
    return facts


def _edge_excluded(drive, target):
    """Defect D-C19-2 (reported): leaving FAULT needs a rising edge of controlword
    bit 7; the library writes 0x0080 only, so a drive whose last controlword
    already had bit 7 set (a fault right after a fault reset) never leaves FAULT
    and the assignment ends in RuntimeError (time-out)."""
    # fixed in /repo (commit 67b0c08): no longer excluded
    return False


def _evt_excluded(rig, target):
    """Defect D-C19-3 (reported): PdoMap takes every TPDO it has received twice for a periodic
    one (PdoMap.period is set from the distance of two receptions), also an event-driven TPDO
    (transmission type 254 / 255) that only comes when a mapped object changes.  From then on
    check_statusword() demands a TPDO within TIMEOUT_CHECK_TPDO (0.2 s) instead of reading
    0x6041 by SDO: an assignment that has to wait for an automatic transition (1: NOT READY TO
    SWITCH ON -> SWITCH ON DISABLED, 14: FAULT REACTION ACTIVE -> FAULT) raises RuntimeError
    ('Timeout waiting for updated statusword') although the drive makes the transition within
    the per-step limit (TIMEOUT_SWITCH_STATE_SINGLE = 0.4 s).  The same drive with the
    statusword by SDO, or before the second TPDO was received, is handled correctly."""
    drive = rig.drive
    return (rig.thread_mode == "evstep" and target in R.COMMANDABLE
            and drive.state in (R.NRTSO, R.FRA) and bool(drive.auto_left)
            and drive.tpdo_sent.get(rig.sw_tpdo, 0) >= 2)


EXCL_EVT = ("D-C19-3: statusword in an event-driven TPDO that was received twice before (PdoMap.period set, "
            "the map counts as periodic), drive in NOT READY TO SWITCH ON / FAULT REACTION ACTIVE whose "
            "automatic transition is still pending: check_statusword waits TIMEOUT_CHECK_TPDO for a TPDO "
            "instead of reading by SDO -> RuntimeError")
EXCL_RACE = ("D-C19-1: statusword by SDO, drive leaves NOT READY TO SWITCH ON between the 2nd and 3rd "
             "status read of the assignment (k=2) -> ValueError")
EXCL_EDGE = ("D-C19-2: drive in FAULT (REACTION ACTIVE) whose last controlword already has bit 7 set: "
             "library writes 0x80 again, no rising edge -> time-out")


# ---------------------------------------------------------------------------------
_decode_rigs = {}


def _decode_rig(via):
    rig = _decode_rigs.get(via)
    if rig is None:
        if via == "sdo":
            rig = Rig({"tr": "sdo", "od_pdo": False}, force_sw=0)
        elif via == "sdoG":
            rig = Rig({"tr": "sdo", "layout": "G"}, force_sw=0)
        else:
            rig = Rig({"tr": "ev", "layout": DECODE_TPDO[via][0],
                       "setup": "manual" if via in ("tpdo1", "tpdoL1") else "read"})
        _decode_rigs[via] = rig
    return rig


# carrier -> (layout, [(TPDO number, bytes in front of the statusword, bytes behind it, which word)]):
# a different word first ("old"), so that a stale value cannot pass.  tpdoK / tpdoL2 / tpdoL1: the
# statusword is mapped in two valid TPDOs; the word that counts is the one received last, whichever
# of the two TPDOs brought it (K: the first one is synchronous and never comes)
DECODE_TPDO = {
    "tpdo0": ("A", [(1, b"", b"", "old"), (1, b"", b"", "new")]),
    "tpdo1": ("C", [(1, b"\x07", b"", "old"), (1, b"\x07", b"", "new")]),
    "tpdo4": ("D", [(3, b"\x11\x22\x33\x44", b"", "old"), (3, b"\x11\x22\x33\x44", b"", "new")]),
    "tpdoK": ("K", [(2, b"", b"\x03", "old"), (2, b"", b"\x03", "new")]),
    "tpdoL2": ("L", [(2, b"\x01", b"", "old"), (1, b"", b"", "old"), (2, b"\x01", b"", "new")]),
    "tpdoL1": ("L", [(1, b"", b"", "old"), (2, b"\x06", b"", "old"), (1, b"", b"", "new")]),
}


def run_decode(case):
    sw, via = case["sw"], case["via"]
    want = R.decode_state(sw)
    rig = _decode_rig(via)
    D = []
    if via in ("sdo", "sdoG"):
        rig.drive.force_sw = sw
    else:
        for n, prefix, suffix, which in DECODE_TPDO[via][1]:
            word = sw if which == "new" else sw ^ 0xFFFF
            rig.hub.inject(Frame(R.TPDO_BASE[n - 1] + NODE, prefix + struct.pack("<H", word) + suffix))
    try:
        got = rig.node.state
    except Exception as e:
        got = f"raised {type(e).__name__}: {e}"
    if got != want:
        D.append(Discrepancy(f"C19/decode/{'unknown' if want == 'UNKNOWN' else R.SHORT[want]}",
                             f"statusword {sw:#06x} via {via}: node.state = {got!r}, CiA 402 pattern table says "
                             f"{want!r}"))
    bare = sw in _BARE
    return Outcome(not bare, f"decode/{'UNKNOWN' if want == 'UNKNOWN' else R.SHORT[want]}", D)


_BARE = {R.base_word(s) for s in R.STATES}


# ---------------------------------------------------------------------------------
def _set_mode(rig, mode, D, tag, probe):
    drive = rig.drive
    node = rig.node
    code = R.MODES[mode][0]
    sup = R.mode_supported(mode, drive.supported)
    what = f"{tag}: mode {mode!r} (code {code}), 0x6502 = {drive.supported:#010x}"
    if probe:
        try:
            flag = node.is_op_mode_supported(mode)
            if bool(flag) != sup:
                D.append(Discrepancy("C19/mode/supported-flag",
                                     f"{what}: is_op_mode_supported = {flag!r}, drive advertises: {sup}"))
                return sup
        except Exception as e:
            D.append(Discrepancy("C19/mode/supported-raises", f"{what}: {type(e).__name__}: {e}"))
            return sup
    n = len(drive.mode_writes)
    exc = None
    try:
        node.op_mode = mode
    except Exception as e:
        exc = e
    if rig.tr == "cycr":
        rig.settle()    # the cyclic RPDO task delivers what the library put into it
    writes = drive.mode_writes[n:]
    shown = [(w if isinstance(w, int) else bytes(w).hex(), v) for w, v in writes]
    if not sup:
        if writes:
            D.append(Discrepancy("C19/mode/unsupported-written",
                                 f"{what}: not advertised, yet the drive received 0x6060 <- {shown}"))
        elif exc is None:
            D.append(Discrepancy("C19/mode/unsupported-accepted", f"{what}: not advertised, no exception"))
    else:
        # RuntimeError is what op_mode documents for a switch that is not confirmed in time; the
        # property only demands that the code is written: judged below like a normal return
        if exc is not None and not isinstance(exc, RuntimeError):
            D.append(Discrepancy(f"C19/mode/supported-raises/{type(exc).__name__}",
                                 f"{what}: advertised, but {type(exc).__name__}: {exc}"))
        elif not writes and not (rig.tr == "cycr" and drive.mode_rx == code):
            D.append(Discrepancy("C19/mode/not-written", f"{what}: advertised, nothing written to 0x6060"))
        elif any(w != code for w, _v in writes):
            D.append(Discrepancy("C19/mode/wrong-code", f"{what}: drive received 0x6060 <- {shown}"))
    # (In layouts where 0x6060 shares its RPDO with the controlword the frame also carries the
    # controlword field as last set through the library - initially 0 = disable voltage.  The
    # property says nothing about that; the drive's resulting state is simply what the next
    # operation starts from.)
    if drive.bad_access:
        D.append(Discrepancy("C19/access", f"{what} - drive saw {drive.bad_access[:3]}"))
    return sup


def run_mode(case):
    rig = Rig(case, start=case.get("start", R.SOD))
    try:
        D = []
        sup = _set_mode(rig, case["mode"], D, "mode", case.get("probe", False))
    finally:
        rig.close()
    return Outcome(True, f"mode/{'sdo' if case['tr'] == 'sdo' else 'rpdo'}/"
                         f"{'supported' if sup else 'unsupported'}", D)


# ---------------------------------------------------------------------------------
def run_hist(case):
    rig = Rig(case, start=case["start"])
    D = []
    effective = 0
    kinds = set()
    try:
        for i, op in enumerate(case["ops"]):
            tag = f"op {i} {op}"
            if op["op"] == "set":
                if _race_excluded(rig, op["target"]):
                    return Outcome(excluded=EXCL_RACE)
                if _edge_excluded(rig.drive, op["target"]):
                    return Outcome(excluded=EXCL_EDGE)
                if _evt_excluded(rig, op["target"]) and not case.get("no_excl"):
                    return Outcome(excluded=EXCL_EVT)
                if op["target"] == R.QSA and rig.drive.qs == "auto":
                    raise BadCase("target QSA with qs=auto")
                facts = _assign_k(rig, op["target"], D, tag, op.get("late"))
                if facts["nsteps"] or op["target"] in R.UNCOMMANDABLE:
                    effective += 1
                kinds.add("set")
                if facts["late"]:
                    kinds.add("late")
            elif op["op"] == "fault":
                rig.drive.fault()
                rig.settle()
                effective += 1
                kinds.add("fault")
            elif op["op"] == "mode":
                _set_mode(rig, op["mode"], D, tag, op.get("probe", False))
                effective += 1
                kinds.add("mode")
            elif op["op"] == "get":
                try:
                    got = rig.node.state
                except Exception as e:
                    got = f"raised {type(e).__name__}: {e}"
                # what the master can know: the last statusword it was given
                word = rig.drive.last_word if rig.sw_by_sdo else rig.drive.last_tpdo_word
                want = R.decode_state(word)
                if got != want:
                    D.append(Discrepancy("C19/hist/view", f"{tag}: node.state = {got!r}, the last statusword "
                                         f"the drive gave ({word:#06x}) is {want!r}"))
                kinds.add("get")
            else:
                raise BadCase(op)
            if rig.feeder is not None and rig.feeder.error is not None:
                raise rig.feeder.error
            if D:
                break
    finally:
        rig.close()
    return Outcome(effective >= 2, f"hist/{TR_GROUP[case['tr']]}/"
                                   f"{'with-fault' if 'fault' in kinds else 'no-fault'}"
                                   f"{'/late-step' if 'late' in kinds else ''}", D)


def run_case(case) -> Outcome:
    try:
        out = _run_case(case)
        if _has_late(case) and getattr(out, "discrepancies", None):
            # late-transition cases run against canopen's own (real-time) limits: a verdict there must not be
            # an accident of this process having been starved of CPU - it has to reproduce twice more
            for _ in range(2):
                again = _run_case(case)
                if not getattr(again, "discrepancies", None):
                    return again
        return out
    except SetupFailed as e:
        return Outcome(True, f"{case['fam']}/setup-failed", [Discrepancy("C19/setup", str(e))])


def _run_case(case) -> Outcome:
    fam = case["fam"]
    if fam == "decode":
        return run_decode(case)
    if fam == "pair":
        return run_pair(case)
    if fam == "mode":
        return run_mode(case)
    if fam == "hist":
        return run_hist(case)
    raise BadCase(fam)


# ---- generation ------------------------------------------------------------------
EXTRAS = [
    [0x0000],
    [0xFFFF],
    [0x0010, 0x8290, 0x0400, 0xFFB0, 0x1020],
    [0x4000, 0x0080, 0x00B0],
]


# controlwords that leave a drive in the given state where it is (level evaluation)
CW_CONSISTENT = {
    R.SOD: [0x0000, 0x0007, 0x000F, 0x0002], R.RTSO: [0x0006], R.SO: [0x0007], R.OE: [0x000F],
    R.QSA: [0x0002, 0x0006, 0x0007], R.NRTSO: [0x0000, 0x0006, 0x000F], R.FRA: [0x000F, 0x0000, 0x0006],
    R.FAULT: [0x000F, 0x0000, 0x0006],
}


def k_values(tr, tier):
    """Observations of a transient state before its automatic transition.  With the statusword by
    SDO every value up to 24 (the library makes several reads per assignment step: the transition is
    swept across each of them) and two long ones; bus cycles / waiting periods: a sparser set."""
    if tr in ("sdo", "cw"):
        return list(range(1, 25)) + [31, 40]
    if tr in ("cyc", "cycr"):
        return list(range(1, 17)) + [25] if tier == "thorough" else [1, 2, 3, 5, 9, 14]
    return [1, 2, 3, 4, 6, 9, 14] if tier == "thorough" else [1, 2, 3, 9]


def pair_cases(tier):
    i = 0
    for tr, (layouts, _t, _r, _th) in TRANSPORTS.items():
        for start in R.STATES:
            for target in R.STATES:
                variants = [("stay", 0)]
                if tr in K_TRANSPORTS:
                    if start in (R.NRTSO, R.FRA):
                        variants += [("stay", k) for k in k_values(tr, tier)]
                    elif tier == "thorough":
                        variants += [("stay", 2)]
                    if start == R.QSA and target not in (R.QSA, R.OE):
                        variants += [("auto", k) for k in k_values(tr, tier)]
                for qs, k in variants:
                    for ei, extras in enumerate(EXTRAS):
                        if k > 3 and tier != "thorough" and ei != k % len(EXTRAS):
                            continue    # the long delays: one status-bit sequence each
                        i += 1
                        usable = [lay for lay in layouts if not (k and tr in EV_K_TRANSPORTS and lay in SILENT_FIRST)]
                        if tier == "thorough":
                            combos = [(lay, su) for lay in usable for su in ("read", "manual")]
                        else:
                            combos = [(usable[i % len(usable)], "manual" if (i // 3) % 2 else "read")]
                        for layout, setup in combos:
                            case = {"fam": "pair", "tr": tr, "start": start, "target": target, "k": k,
                                    "extras": extras, "qs": qs, "layout": layout, "setup": setup}
                            if (i // 7) % 3 == 1 and tr in ("ev", "cw", "sw"):
                                case["ev_tt"] = 254
                            if (i // 5) % 3 == 0 and tr != "sdo" and not (k and tr in EV_K_TRANSPORTS):
                                # a non-zero event timer / reception deadline changes nothing for the master
                                case["evt"] = 100
                            if tr == "sdo":
                                case["od_pdo"] = bool(i % 2) if tier != "thorough" else setup == "read"
                            # the controlword the drive last received before the master takes over;
                            # lvl: the drive evaluates the latched controlword again in every new state
                            if ei in (1, 2):
                                case["cw0"] = CW_CONSISTENT[start][(i // 4) % len(CW_CONSISTENT[start])]
                                # (event-driven TPDO and k > 0: a drive that moves on by itself after its
                                # automatic transition makes the master wait with a TPDO it has received
                                # twice by then - D-C19-3 again, see EXCL_EVT)
                                case["lvl"] = ei == 2 and not (k and tr in EV_K_TRANSPORTS)
                            yield case
        # D-C19-2: a drive in FAULT that still holds a controlword with bit 7 set
        for target in R.COMMANDABLE:
            case = {"fam": "pair", "tr": tr, "start": R.FAULT, "target": target, "k": 0, "extras": [0],
                    "qs": "stay", "layout": layouts[0], "setup": "read", "cw0": 0x0080}
            yield case


def decode_cases(tier):
    vias = ["tpdo0", "sdo", "tpdo1", "tpdo4", "sdoG", "tpdoK", "tpdoL2", "tpdoL1"]
    for sw in range(65536):
        if tier == "thorough":
            for via in vias:
                yield {"fam": "decode", "sw": sw, "via": via}
        else:
            yield {"fam": "decode", "sw": sw, "via": "tpdo0"}
            # every low byte with three high bytes, plus a sparse sweep, over the other carriers
            hi = sw >> 8
            if hi in (0x00, 0xFF, 0x52) or sw % 7 == 0:
                yield {"fam": "decode", "sw": sw, "via": vias[1 + (sw + hi) % 7]}


def _upper_bits(mode_i, low):
    # deterministic filler for bits 10..31 (manufacturer specific / reserved)
    x = (low * 2654435761 + mode_i * 40503 + 12345) & 0xFFFFFFFF
    return (x >> 3) & 0xFFFFFC00


def mode_cases(tier):
    i = 0
    for low in range(1024):
        for mi, mode in enumerate(R.MODE_NAMES):
            i += 1
            tr, layout = [("sdo", "none"), ("ev", "B"), ("sdo", "none"), ("ev", "M"), ("ev", "D"),
                          ("ev", "C")][i % 6]
            supported = low | (_upper_bits(mi, low) if i % 4 else 0)
            case = {"fam": "mode", "tr": tr, "layout": layout, "mode": mode, "supported": supported,
                    "probe": bool(i % 3 == 0), "display0": [0, 1, 3, 6][i % 4],
                    "setup": "read" if i % 7 == 0 else "manual"}
            if tr == "sdo":
                case["kmode"] = i % 3
                case["od_pdo"] = bool(i % 2)
            yield case


def seq_cases(tier):
    """Short enumerated histories on one node object: every (state, first target, second target),
    a fault between two assignments, every ordered pair of operation modes against drives that
    advertise one, both or none of them (what the object remembers from the first operation must not
    leak into the second)."""
    seq_tr = ["sdo", "ev", "cyc", "cw", "sw", "cycr", "free"] if tier == "thorough" else \
             ["sdo", "ev", "cyc", "cw", "sw", "cycr"]
    i = 0

    def base(tr, start, k, ops):
        layouts = TRANSPORTS[tr][0]
        return {"fam": "hist", "tr": tr, "layout": layouts[i % len(layouts)],
                "setup": "manual" if (i // 2) % 2 else "read", "start": start,
                "k": k if tr in ("sdo", "cw", "cyc", "cycr") else 0, "extras": EXTRAS[i % len(EXTRAS)],
                "qs": "stay", "supported": 0x3EF, "display0": 0, "lvl": False,
                "cw0": CW_CONSISTENT[start][0], "ops": ops}

    for start in R.STATES:
        for t1 in R.COMMANDABLE:
            for t2 in R.STATES:
                for tr in (seq_tr if tier == "thorough" else [seq_tr[i % len(seq_tr)]]):
                    yield base(tr, start, [0, 2, 7][i % 3],
                               [{"op": "set", "target": t1}, {"op": "set", "target": t2}, {"op": "get"}])
                i += 1
    for t1 in R.COMMANDABLE:
        for t2 in R.STATES:
            for k in (0, 1, 7):
                for tr in (seq_tr if tier == "thorough" else [seq_tr[i % len(seq_tr)]]):
                    yield base(tr, R.SOD, k, [{"op": "set", "target": t1}, {"op": "fault"},
                                              {"op": "set", "target": t2}, {"op": "get"}])
                i += 1
    for m1 in R.MODE_NAMES:
        for m2 in R.MODE_NAMES:
            for which in (1, 2, 3, 0):
                bits = 0
                for w, m in ((1, m1), (2, m2)):
                    if which & w and R.MODES[m][1] is not None:
                        bits |= 1 << R.MODES[m][1]
                tr, layout = [("sdo", "none"), ("ev", "B"), ("ev", "M"), ("cycr", "C"), ("ev", "L")][i % 5]
                case = base(tr, R.SOD, 0, [{"op": "mode", "mode": m1, "probe": bool(i % 2)},
                                           {"op": "mode", "mode": m2, "probe": bool((i // 2) % 2)}])
                case.update(layout=layout, supported=bits | (_upper_bits(i % 10, bits) if i % 3 else 0),
                            display0=[0, 1, 3, 6][i % 4])
                yield case
                i += 1


# commanded transitions of the CiA 402 automaton (2..12, 15, 16; written from the standard's figure) and
# the automatic ones (1, 14): only used to estimate how many commanded steps an assignment has at least,
# so that the quick tier does not spend its late-transition cases on step numbers no route has
_CMD_EDGES = {R.SOD: [R.RTSO], R.RTSO: [R.SO, R.SOD], R.SO: [R.OE, R.RTSO, R.SOD],
              R.OE: [R.SO, R.RTSO, R.SOD, R.QSA], R.QSA: [R.SOD, R.OE], R.FAULT: [R.SOD],
              R.NRTSO: [], R.FRA: []}
_AUTO_EDGE = {R.NRTSO: R.SOD, R.FRA: R.FAULT}


def _min_steps(start, target):
    start = _AUTO_EDGE.get(start, start)
    dist, todo = {start: 0}, [start]
    while todo:
        s = todo.pop(0)
        for nxt in _CMD_EDGES[s]:
            if nxt not in dist:
                dist[nxt] = dist[s] + 1
                todo.append(nxt)
    return dist[target]


def late_cases(tier):
    """Every (state, commandable target) pair with one commanded transition of the assignment performed
    late (step 1..4 of the route the library takes), statusword by SDO / by a periodic TPDO, controlword
    by SDO / by an event-driven RPDO.  thorough: all of them; quick: one step number and one transport
    per pair, rotating."""
    j = 0
    for start in R.STATES:
        for target in R.COMMANDABLE:
            if start == target or (start == R.NRTSO and target == R.SOD):
                continue
            j += 1
            least = _min_steps(start, target)
            for n in (1, 2, 3, 4):
                for ti, tr in enumerate(LATE_TRANSPORTS):
                    if tier != "thorough" and (n != 1 + (j // 3) % min(least, 3) or ti != j % 3):
                        continue
                    layouts = TRANSPORTS[tr][0]
                    case = {"fam": "pair", "tr": tr, "start": start, "target": target, "k": 0,
                            "extras": EXTRAS[(j + n) % len(EXTRAS)], "qs": "stay",
                            "layout": layouts[(j + n) % len(layouts)],
                            "setup": "manual" if (j + n) % 2 else "read", "late": n,
                            "cw0": CW_CONSISTENT[start][j % len(CW_CONSISTENT[start])]}
                    if tr == "sdo":
                        case["od_pdo"] = bool(j % 2)
                    yield case


def late_hist_cases(tier):
    """Histories on one node object in which several assignments each meet one late transition (every
    assignment has its own limits), with reads of the state and ordinary assignments in between."""
    j = 0
    for start in (R.SOD, R.OE, R.FAULT, R.QSA, R.RTSO):
        for t1 in R.COMMANDABLE:
            for t2 in R.COMMANDABLE:
                if t1 == start or t2 == t1:
                    continue
                j += 1
                if tier != "thorough" and j % 16 != 3:
                    continue
                tr = LATE_TRANSPORTS[j % 3]
                layouts = TRANSPORTS[tr][0]
                yield {"fam": "hist", "tr": tr, "layout": layouts[j % len(layouts)],
                       "setup": "manual" if (j // 2) % 2 else "read", "start": start, "k": 0,
                       "extras": EXTRAS[j % len(EXTRAS)], "qs": "stay", "supported": 0x3EF, "display0": 0,
                       "lvl": False, "cw0": CW_CONSISTENT[start][0],
                       "ops": [{"op": "set", "target": t1, "late": 1 + j % min(_min_steps(start, t1), 2)},
                               {"op": "get"},
                               {"op": "set", "target": t2, "late": 1 + (j // 2) % min(_min_steps(t1, t2), 2)},
                               {"op": "get"},
                               {"op": "set", "target": t1},
                               {"op": "set", "target": t2, "late": 1}]}


@st.composite
def hist_case(draw):
    tr = draw(st.sampled_from(["sdo", "sdo", "cw", "sw", "ev", "ev", "cyc", "cycr", "free"]))
    layouts = TRANSPORTS[tr][0]
    case = {"fam": "hist", "tr": tr, "layout": draw(st.sampled_from(layouts)),
            "setup": draw(st.sampled_from(["read", "manual"])),
            "start": draw(st.sampled_from(R.STATES)),
            "k": draw(st.integers(0, 9) if tr in ("sdo", "cw") else st.integers(0, 6) if tr in ("cyc", "cycr")
                      else st.sampled_from([0, 0, 1, 2, 3]) if tr in EV_K_TRANSPORTS else st.just(0)),
            "extras": draw(st.one_of(st.sampled_from(EXTRAS),
                                     st.lists(st.integers(0, 0xFFFF), min_size=1, max_size=4))),
            "qs": "stay",
            "supported": draw(st.integers(0, 0xFFFFFFFF)),
            "display0": draw(st.sampled_from([0, 1, 3, 6, 8])),
            "lvl": draw(st.booleans())}
    if case["k"] and tr in EV_K_TRANSPORTS:
        # event-driven TPDOs and automatic transitions that take their time; the drive has sent its
        # TPDOs twice before the master's first action (see EXCL_EVT)
        case["announce"] = 2
        if case["layout"] in SILENT_FIRST:
            case["layout"] = "A"
    elif tr != "sdo" and draw(st.integers(0, 2)) == 0:
        case["evt"] = draw(st.sampled_from([1, 100, 0xFFFF]))
    if tr in ("ev", "cw", "sw", "free") and draw(st.integers(0, 2)) == 0:
        case["ev_tt"] = 254
    case["cw0"] = draw(st.sampled_from(CW_CONSISTENT[case["start"]]))
    if tr == "sdo":
        case["od_pdo"] = draw(st.booleans())
        case["kmode"] = draw(st.integers(0, 2))
    ops = []
    for _ in range(draw(st.integers(1, 7))):
        kind = draw(st.sampled_from(["set", "set", "set", "fault", "mode", "get"]))
        if kind == "set":
            ops.append({"op": "set", "target": draw(st.sampled_from(R.COMMANDABLE * 3 + R.UNCOMMANDABLE))})
        elif kind == "mode":
            ops.append({"op": "mode", "mode": draw(st.sampled_from(R.MODE_NAMES)),
                        "probe": draw(st.booleans())})
        else:
            ops.append({"op": kind})
    case["ops"] = ops
    return case


def showcase():
    """One case per family / transport first, so that the evidence samples show the variety."""
    ex = EXTRAS[2]
    yield {"fam": "pair", "tr": "sdo", "start": R.FRA, "target": R.OE, "k": 3, "extras": ex, "qs": "stay",
           "layout": "none", "setup": "read", "od_pdo": False}
    yield {"fam": "pair", "tr": "ev", "start": R.QSA, "target": R.SO, "k": 0, "extras": ex, "qs": "stay",
           "layout": "D", "setup": "read", "cw0": 2, "lvl": True}
    yield {"fam": "pair", "tr": "cycr", "start": R.NRTSO, "target": R.QSA, "k": 2, "extras": ex,
           "qs": "stay", "layout": "C", "setup": "manual"}
    yield {"fam": "pair", "tr": "free", "start": R.OE, "target": R.FAULT, "k": 0, "extras": [0xFFFF],
           "qs": "stay", "layout": "B", "setup": "read", "cw0": 0xF}
    # a long fault reaction: the refusal of target FAULT must not turn into waiting for transition 14
    yield {"fam": "pair", "tr": "sdo", "start": R.FRA, "target": R.FAULT, "k": 17, "extras": ex, "qs": "stay",
           "layout": "none", "setup": "read", "od_pdo": False}
    yield {"fam": "pair", "tr": "cw", "start": R.FRA, "target": R.SO, "k": 13, "extras": [0], "qs": "stay",
           "layout": "CW", "setup": "read"}
    yield {"fam": "pair", "tr": "sdo", "start": R.QSA, "target": R.RTSO, "k": 10, "extras": [0], "qs": "auto",
           "layout": "none", "setup": "read", "od_pdo": True}
    # the statusword in two valid TPDOs; the first one is synchronous and never comes
    yield {"fam": "pair", "tr": "ev", "start": R.SOD, "target": R.OE, "k": 0, "extras": ex, "qs": "stay",
           "layout": "K", "setup": "read"}
    yield {"fam": "pair", "tr": "ev", "start": R.OE, "target": R.RTSO, "k": 0, "extras": [0xFFFF], "qs": "stay",
           "layout": "L", "setup": "manual"}
    # event-driven TPDO and a fault reaction that takes its time
    yield {"fam": "pair", "tr": "ev", "start": R.FRA, "target": R.SOD, "k": 3, "extras": ex, "qs": "stay",
           "layout": "B", "setup": "read"}
    yield {"fam": "hist", "tr": "sw", "layout": "SW", "setup": "read", "start": R.OE, "k": 1, "extras": [0],
           "qs": "stay", "supported": 0x3EF, "display0": 0, "lvl": False, "cw0": 0xF, "announce": 2,
           "ops": [{"op": "set", "target": R.SO}, {"op": "fault"}, {"op": "get"}, {"op": "set", "target": R.FAULT},
                   {"op": "set", "target": R.SOD}]}
    # a slow drive: every controlword takes 0.08 s, multi-step changes take longer than the
    # no-progress limit (0.2 s) - each step is still far inside the per-step limit
    for start, target in ((R.FAULT, R.OE), (R.SOD, R.OE), (R.SOD, R.QSA), (R.OE, R.RTSO)):
        yield {"fam": "pair", "tr": "sdo", "start": start, "target": target, "k": 0, "extras": [0], "qs": "stay",
               "layout": "none", "setup": "read", "od_pdo": False, "cw_latency": 0.08}
    yield {"fam": "decode", "sw": 0x5237, "via": "sdo"}
    yield {"fam": "decode", "sw": 0xFF5F, "via": "tpdo4"}
    yield {"fam": "decode", "sw": 0x0637, "via": "tpdoK"}
    yield {"fam": "decode", "sw": 0x1250, "via": "tpdoL2"}
    yield {"fam": "decode", "sw": 0x8008, "via": "tpdoL1"}
    yield {"fam": "mode", "tr": "sdo", "layout": "none", "mode": "HOMING", "supported": 0xA5000020,
           "probe": True, "display0": 1, "kmode": 2, "setup": "read"}
    yield {"fam": "mode", "tr": "ev", "layout": "M", "mode": "CYCLIC SYNCHRONOUS TORQUE",
           "supported": 0x000001FF, "probe": False, "display0": 0, "setup": "manual"}
    yield {"fam": "hist", "tr": "cw", "layout": "CW", "setup": "read", "start": R.SOD, "k": 1, "extras": ex,
           "qs": "stay", "supported": 0x3EF, "display0": 0, "lvl": False, "cw0": 0,
           "ops": [{"op": "set", "target": R.OE}, {"op": "fault"}, {"op": "get"}, {"op": "set", "target": R.SO},
                   {"op": "mode", "mode": "PROFILED VELOCITY", "probe": True}, {"op": "set", "target": R.FRA}]}
    yield {"fam": "hist", "tr": "cyc", "layout": "A", "setup": "manual", "start": R.OE, "k": 2, "extras": [0],
           "qs": "stay", "supported": 0, "display0": 0, "lvl": True, "cw0": 0xF,
           "ops": [{"op": "set", "target": R.QSA}, {"op": "set", "target": R.OE}, {"op": "set", "target": R.RTSO}]}


def search(ctx):
    thorough = ctx.tier == "thorough"
    ctx.enumerate(showcase())
    # bound by canopen's own time-outs (0.4 s of waiting per late step), not by this machine's speed: first, so
    # that a run that exhausts its budget on a loaded machine has been through them
    ctx.enumerate(late_cases(ctx.tier), "(state, commandable target) pairs x which commanded transition is late "
                                        "(slower than the per-step limit) x statusword by SDO / periodic TPDO")
    ctx.enumerate(late_hist_cases(ctx.tier), "histories with a late transition in several assignments on one node "
                                             "object")
    ctx.enumerate(pair_cases(ctx.tier), "8 x 8 (state, target) pairs x transports x k x status-bit patterns")
    ctx.enumerate(mode_cases(ctx.tier), "10 operation modes x all 1024 values of bits 0..9 of 0x6502")
    ctx.enumerate(seq_cases(ctx.tier), "two assignments / assignment, fault, assignment / two mode changes on one "
                                       "node object")
    ctx.enumerate(decode_cases(ctx.tier),
                  "all 65536 statuswords" + (" over 8 carriers" if thorough else
                                             " by TPDO; sparse sweep over SDO and five more TPDO layouts / orders"))
    ctx.hypothesis(hist_case(), 6000 if thorough else 500)
