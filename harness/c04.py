"""C04 - data type codec is the exact CiA 301 representation, never wraps."""
import math

from hypothesis import strategies as st

from harness import refcodec as rc
from harness.core import Discrepancy, Outcome

PROPERTY = "C04"
LEVEL = "exploration"
RULE = ("cases = (op, data type, value): op=int in-range value (all values of the 8/16-bit types "
        "exhaustively, all values within 2 of 0, of +-2^k and of the range ends for wider types, seeded "
        "random), op=oor out-of-range value (min-1, min-2, max+1, max+2, +-2^k up to 2^70, random), "
        "op=bytes byte string of length 0..9 (all 1- and 2-byte patterns exhaustively), op=real IEEE bit "
        "pattern, op=text string. Oracle: int.to_bytes / hand-written IEEE 754 decoder / code-unit string "
        "encoder. Non-trivial = anything but an in-range integer with |v| < 100; distinct = canonical "
        "JSON of the case.")
ASSUMPTIONS = [
    "trailing NUL characters are excluded from text (decode_raw documents stripping them)",
    "REAL32 values are binary32-representable (others are rounded by any codec)",
    "'rejected' accepts any exception type",
]
BUDGET = {"quick": 150, "thorough": 300}

_vars = {}


def _var(dt, src="code"):
    """The variable whose codec is exercised: made in code, or (src='eds') taken from a dictionary
    imported from an EDS text that declares an object of that data type."""
    v = _vars.get((dt, src))
    if v is None:
        if src == "eds":
            import io

            import canopen
            from harness.c02 import render_eds
            fp = io.StringIO(render_eds([{"kind": "var", "index": 0x2000, "name": "v", "dt": dt}], False))
            fp.name = "generated.eds"
            v = canopen.import_od(fp, 1)[0x2000]
        else:
            from canopen.objectdictionary import ODVariable
            v = ODVariable("v", 0x2000, 0)
            v.data_type = dt
        _vars[(dt, src)] = v
    return v


def run_case(case) -> Outcome:
    op, dt = case["op"], case["dt"]
    if case.get("prev") is not None:
        # the same variable object described another data type before and was used as such
        # (data_type is a plain public attribute; tools that build dictionaries in code re-use objects)
        from canopen.objectdictionary import ODVariable
        var = ODVariable("v", 0x2000, 0)
        if case["prev"]:
            var.data_type = case["prev"]
            try:
                len(var)
                var.decode_raw(var.encode_raw(1))
            except Exception:
                pass
        else:
            len(var)                    # looked at before the type was known
        var.data_type = dt
    else:
        var = _var(dt, case.get("src", "code"))
    D = []
    name = rc.NAMES[dt]

    def bad(kind, detail):
        D.append(Discrepancy(f"C04/{op}/{kind}", f"{name} {detail}"))

    if op == "int":
        v = case["v"]
        want = rc.enc_int(dt, v)
        try:
            got = var.encode_raw(v)
        except Exception as e:
            bad("encode-raises", f"encode_raw({v}) raised {type(e).__name__}: {e}")
            return Outcome(True, f"int/{name}", D)
        if bytes(got) != want:
            bad("encode-bytes", f"encode_raw({v}) = {bytes(got).hex()} want {want.hex()}")
        try:
            back = var.decode_raw(want)
            if back != v or isinstance(back, bool):
                bad("decode-value", f"decode_raw({want.hex()}) = {back!r} want {v}")
        except Exception as e:
            bad("decode-raises", f"decode_raw({want.hex()}) raised {type(e).__name__}: {e}")
        if len(var) != rc.width(dt):
            bad("len", f"len(var) = {len(var)} want {rc.width(dt)}")
        return Outcome(abs(v) >= 100, f"int/{name}", D)

    if op == "oor":
        v = case["v"]
        lo, hi = rc.int_range(dt)
        assert v < lo or v > hi
        try:
            got = var.encode_raw(v)
        except Exception:
            return Outcome(True, f"oor/{name}", D)
        bad("wrapped", f"encode_raw({v}) returned {bytes(got).hex()} instead of raising "
                       f"(range {lo}..{hi})")
        return Outcome(True, f"oor/{name}", D)

    if op == "bytes":
        b = case["b"]
        right = len(b) == rc.width(dt) // 8
        if case.get("mutable") and right:
            # received data is a bytearray (python-can, Network.notify): decoding must leave it alone
            # and a second decode of the same buffer must give the same value
            buf = bytearray(b)
            try:
                v1 = var.decode_raw(buf)
                if bytes(buf) != bytes(b):
                    bad("decode-changed-input", f"decode_raw(bytearray {bytes(b).hex()}) left the buffer as "
                                                f"{bytes(buf).hex()}")
                else:
                    v2 = var.decode_raw(buf)
                    if not rc.values_equal(dt, v1, v2) and not (isinstance(v1, float) and v1 != v1):
                        bad("decode-not-repeatable", f"second decode of {bytes(b).hex()} gave {v2!r}, first {v1!r}")
            except Exception as e:
                bad("decode-raises", f"decode_raw(bytearray {bytes(b).hex()}) raised {type(e).__name__}: {e}")
            if D:
                return Outcome(True, f"bytes/{name}/bytearray", D)
        try:
            val = var.decode_raw(bytes(b))
        except Exception as e:
            if right:
                bad("decode-raises", f"decode_raw({bytes(b).hex()}) raised {type(e).__name__}: {e}")
            return Outcome(True, f"bytes/{name}/{'right' if right else 'wrong'}-length", D)
        if not right:
            bad("wrong-length-decoded", f"decode_raw({bytes(b).hex()}) ({len(b)} bytes) gave {val!r}")
            return Outcome(True, f"bytes/{name}/wrong-length", D)
        if dt in rc.INTEGERS:
            want = rc.dec_int(dt, bytes(b))
            if val != want:
                bad("decode-value", f"decode_raw({bytes(b).hex()}) = {val!r} want {want}")
            else:
                try:
                    again = var.encode_raw(val)
                    if bytes(again) != bytes(b):
                        bad("reencode", f"encode_raw(decode_raw({bytes(b).hex()})) = {bytes(again).hex()}")
                except Exception as e:
                    bad("reencode-raises", f"encode_raw({val!r}) raised {type(e).__name__}: {e}")
        elif dt in rc.REALS:
            want = rc.dec_real(dt, bytes(b))
            if not rc.float_bits_equal(float(val), want) or not isinstance(val, float):
                bad("decode-value", f"decode_raw({bytes(b).hex()}) = {val!r} want {want!r}")
        elif dt == rc.BOOLEAN:
            if val is not (b[0] != 0):
                bad("decode-value", f"decode_raw({bytes(b).hex()}) = {val!r}")
        return Outcome(True, f"bytes/{name}/right-length", D)

    if op == "real":
        w = rc.REALS[dt]
        bits = case["bits"]
        pattern = bits.to_bytes(w // 8, "little")
        v = rc.dec_real(dt, pattern)          # reference value of that pattern
        try:
            got = bytes(var.encode_raw(v))
        except Exception as e:
            bad("encode-raises", f"encode_raw({v!r}) raised {type(e).__name__}: {e}")
            return Outcome(True, f"real/{name}", D)
        if len(got) != w // 8:
            bad("encode-length", f"encode_raw({v!r}) has {len(got)} bytes")
        else:
            ref = rc.dec_real(dt, got)
            if not rc.float_bits_equal(ref, v):
                bad("encode-bytes", f"encode_raw({v!r}) = {got.hex()} which is {ref!r}")
            if not math.isnan(v) and got != pattern:
                bad("encode-bytes", f"encode_raw({v!r}) = {got.hex()} want {pattern.hex()}")
            try:
                back = var.decode_raw(got)
                if not rc.float_bits_equal(float(back), v):
                    bad("roundtrip", f"decode_raw(encode_raw({v!r})) = {back!r}")
            except Exception as e:
                bad("decode-raises", f"decode_raw({got.hex()}) raised {type(e).__name__}")
        if len(var) != w:
            bad("len", f"len(var) = {len(var)}")
        return Outcome(True, f"real/{name}/{_fclass(v)}", D)

    if op == "real_oor":
        v = case["v"]
        try:
            got = var.encode_raw(v)
        except Exception:
            return Outcome(True, f"real_oor/{name}", D)
        bad("wrapped", f"encode_raw({v!r}) returned {bytes(got).hex()} instead of raising")
        return Outcome(True, f"real_oor/{name}", D)

    if op == "bool":
        v = case["v"]
        try:
            got = bytes(var.encode_raw(v))
            if got != (b"\x01" if v else b"\x00"):
                bad("encode-bytes", f"encode_raw({v}) = {got.hex()}")
            back = var.decode_raw(got)
            if back is not v:
                bad("roundtrip", f"decode_raw(encode_raw({v})) = {back!r}")
        except Exception as e:
            bad("raises", f"{type(e).__name__}: {e}")
        if len(var) != 8:
            bad("len", f"len(var) = {len(var)}")
        return Outcome(True, "bool", D)

    if op == "text":
        s = case["s"]
        want = rc.enc_visible(s) if dt == rc.VISIBLE_STRING else rc.enc_unicode(s)
        try:
            got = bytes(var.encode_raw(s))
            if got != want:
                bad("encode-bytes", f"encode_raw({s!r}) = {got.hex()} want {want.hex()}")
            back = var.decode_raw(want)
            if back != s:
                bad("roundtrip", f"decode_raw({want.hex()}) = {back!r} want {s!r}")
        except Exception as e:
            bad("raises", f"{s!r}: {type(e).__name__}: {e}")
        return Outcome(len(s) > 0, f"text/{name}", D)

    raise ValueError(op)


def _fclass(v):
    if math.isnan(v):
        return "nan"
    if math.isinf(v):
        return "inf"
    if v == 0:
        return "zero"
    if abs(v) < 2.3e-308:
        return "tiny"
    return "normal"


# ---- generation ------------------------------------------------------------
def boundary_ints(dt):
    lo, hi = rc.int_range(dt)
    w = rc.INTEGERS[dt]
    s = set()
    for k in range(0, w + 1):
        for base in (1 << k, -(1 << k)):
            for d in (-2, -1, 0, 1, 2):
                s.add(base + d)
    for base in (0, lo, hi):
        for d in (-2, -1, 0, 1, 2):
            s.add(base + d)
    return sorted(v for v in s if lo <= v <= hi)


def oor_ints(dt):
    lo, hi = rc.int_range(dt)
    s = {lo - 1, lo - 2, hi + 1, hi + 2}
    for k in range(rc.INTEGERS[dt] - 1, 71):
        for base in (1 << k, -(1 << k)):
            for d in (-1, 0, 1):
                s.add(base + d)
    return sorted(v for v in s if v < lo or v > hi)


def real_patterns(dt):
    w = rc.REALS[dt]
    eb, mb = (8, 23) if w == 32 else (11, 52)
    exps = sorted(set(list(range(0, 4)) + list(range((1 << eb) - 4, 1 << eb)) +
                      [(1 << (eb - 1)) + d for d in range(-3, 4)] +
                      (list(range(0, 1 << eb)) if w == 32 else list(range(0, 1 << eb, 37)))))
    mants = [0, 1, 2, (1 << mb) - 1, (1 << mb) - 2, 1 << (mb - 1), (1 << (mb - 1)) - 1,
             (1 << (mb - 1)) + 1, 0x2AAAAA & ((1 << mb) - 1), 0x155555 & ((1 << mb) - 1)]
    for sign in (0, 1):
        for e in exps:
            for m in mants:
                yield (sign << (w - 1)) | (e << mb) | m


def search(ctx):
    thorough = ctx.tier == "thorough"

    def gen_enum():
        # exhaustive 8- and 16-bit
        for dt in (rc.INTEGER8, rc.UNSIGNED8, rc.INTEGER16, rc.UNSIGNED16):
            lo, hi = rc.int_range(dt)
            for v in range(lo, hi + 1):
                yield {"op": "int", "dt": dt, "v": v}
        for dt in sorted(rc.INTEGERS):
            if rc.INTEGERS[dt] > 16:
                for v in boundary_ints(dt):
                    yield {"op": "int", "dt": dt, "v": v}
            for v in oor_ints(dt):
                yield {"op": "oor", "dt": dt, "v": v}
            # the same codec reached through a dictionary imported from EDS text
            for v in boundary_ints(dt):
                yield {"op": "int", "dt": dt, "v": v, "src": "eds"}
            for v in list(oor_ints(dt))[:4]:
                yield {"op": "oor", "dt": dt, "v": v, "src": "eds"}
            yield {"op": "bytes", "dt": dt, "b": bytes(range(0x81, 0x81 + rc.width(dt) // 8)), "src": "eds"}
            yield {"op": "bytes", "dt": dt, "b": bytes(rc.width(dt) // 8 + 1), "src": "eds"}
            # ... and through a variable object that was of another type before
            others = sorted(rc.INTEGERS)
            for k, v in enumerate(boundary_ints(dt)):
                prev = others[(others.index(dt) + 1 + k) % len(others)]
                yield {"op": "int", "dt": dt, "v": v, "prev": prev if prev != dt else 0}
            yield {"op": "int", "dt": dt, "v": 1, "prev": 0}
            yield {"op": "bytes", "dt": dt, "b": bytes(range(0x81, 0x81 + rc.width(dt) // 8)), "prev": rc.REAL64}
        for dt in sorted(rc.REALS):
            for bits in list(real_patterns(dt))[:12]:
                yield {"op": "real", "dt": dt, "bits": bits, "src": "eds"}
        yield {"op": "bool", "dt": rc.BOOLEAN, "v": True, "src": "eds"}
        for v in (False, True):
            yield {"op": "bool", "dt": rc.BOOLEAN, "v": v}
        # byte strings: every 1- and 2-byte pattern for the 8/16-bit types + BOOLEAN
        for dt in (rc.INTEGER8, rc.UNSIGNED8, rc.BOOLEAN):
            for x in range(256):
                yield {"op": "bytes", "dt": dt, "b": bytes([x])}
        for dt in (rc.INTEGER16, rc.UNSIGNED16):
            for x in range(65536):
                yield {"op": "bytes", "dt": dt, "b": x.to_bytes(2, "little")}
        # every length 0..9 for every fixed-size type, several fill patterns
        for dt in [rc.BOOLEAN] + sorted(rc.NUMERIC):
            for n in range(0, 10):
                for fill in (b"\x00", b"\xff", b"\x80", b"\x7f", b"\x01"):
                    yield {"op": "bytes", "dt": dt, "b": fill * n}
                yield {"op": "bytes", "dt": dt, "b": bytes(range(0x81, 0x81 + n))}
                yield {"op": "bytes", "dt": dt, "b": bytes(range(0x11, 0x11 + n)), "mutable": True}
        for dt in sorted(rc.REALS):
            for bits in real_patterns(dt):
                yield {"op": "real", "dt": dt, "bits": bits}
        for v in (3.5e38, -3.5e38, 1e39, -1e300, 1.7976931348623157e308):
            yield {"op": "real_oor", "dt": rc.REAL32, "v": v}
        # every single ASCII / sampled BMP character (trailing NUL excluded)
        for cp in range(1, 128):
            yield {"op": "text", "dt": rc.VISIBLE_STRING, "s": chr(cp)}
            yield {"op": "text", "dt": rc.VISIBLE_STRING, "s": "a" + chr(cp) + "z"}
        yield {"op": "text", "dt": rc.VISIBLE_STRING, "s": "\x00x"}
        yield {"op": "text", "dt": rc.VISIBLE_STRING, "s": ""}
        yield {"op": "text", "dt": rc.UNICODE_STRING, "s": ""}
        for cp in range(1, 0x10000):
            if 0xD800 <= cp <= 0xDFFF:
                continue
            yield {"op": "text", "dt": rc.UNICODE_STRING, "s": chr(cp)}
            if thorough or cp % 5 == 0:
                yield {"op": "text", "dt": rc.UNICODE_STRING, "s": "a" + chr(cp) + "z"}

    ctx.enumerate(gen_enum(), "8/16-bit values and byte patterns, boundaries, lengths 0..9, characters")

    wide = [dt for dt in sorted(rc.INTEGERS) if rc.INTEGERS[dt] > 16]

    @st.composite
    def rand_case(draw):
        kind = draw(st.sampled_from(["int", "int", "oor", "bytes", "real", "text", "text"]))
        if kind == "int":
            dt = draw(st.sampled_from(wide))
            lo, hi = rc.int_range(dt)
            return {"op": "int", "dt": dt, "v": draw(st.integers(lo, hi)),
                    "src": draw(st.sampled_from(["code", "code", "eds"]))}
        if kind == "oor":
            dt = draw(st.sampled_from(sorted(rc.INTEGERS)))
            lo, hi = rc.int_range(dt)
            mag = draw(st.integers(1, 1 << 72))
            v = hi + mag if draw(st.booleans()) else lo - mag
            return {"op": "oor", "dt": dt, "v": v}
        if kind == "bytes":
            dt = draw(st.sampled_from([rc.BOOLEAN] + sorted(rc.NUMERIC)))
            n = draw(st.one_of(st.just(rc.width(dt) // 8), st.integers(0, 9)))
            return {"op": "bytes", "dt": dt, "b": draw(st.binary(min_size=n, max_size=n)),
                    "mutable": draw(st.booleans())}
        if kind == "real":
            dt = draw(st.sampled_from(sorted(rc.REALS)))
            return {"op": "real", "dt": dt, "bits": draw(st.integers(0, (1 << rc.REALS[dt]) - 1))}
        dt = draw(st.sampled_from([rc.VISIBLE_STRING, rc.UNICODE_STRING]))
        if dt == rc.VISIBLE_STRING:
            alpha = st.characters(min_codepoint=0, max_codepoint=127)
        else:
            alpha = st.characters(min_codepoint=0, max_codepoint=0xFFFF, exclude_categories=["Cs"])
        s = draw(st.text(alpha, max_size=40)).rstrip("\x00")
        return {"op": "text", "dt": dt, "s": s}

    ctx.hypothesis(rand_case(), 50000 if thorough else 6000)
