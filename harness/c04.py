"""C04 - data type codec is the exact CiA 301 representation, never wraps."""
import math

from hypothesis import strategies as st

from harness import refcodec as rc
from harness.core import Discrepancy, Outcome

PROPERTY = "C04"
LEVEL = "exploration"
RULE = ("cases = (op, data type, value): op=int in-range value (all values of the 8/16-bit types "
        "exhaustively, all values within 2 of 0, of +-2^k and of the range ends for wider types, seeded "
        "random), op=oor out-of-range value (min-1, min-2, max+1, max+2, +-2^k up to 2^70, random), "
        "op=bytes byte string of length 0..9 (all 1- and 2-byte patterns exhaustively), op=real IEEE bit "
        "pattern, op=text string. Routes: variable made in code / imported from EDS text / object that "
        "described another type before ('prev'); 'lim' = the variable carries declared limits (min/max "
        "set in code or LowLimit/HighLimit in the EDS: strictly inside the type range, equal to it, "
        "inverted, one-sided, degenerate) - the oracle is unchanged: every value of the TYPE's range "
        "encodes exactly, every value outside it is rejected. op=hist: a history over 1..3 variable "
        "objects (same or different types, code/EDS, with/without limits) of steps enc / dec / len / "
        "type (assignment of data_type) / raw; every step is judged like the single ops against the "
        "object's CURRENT type, decode_raw is also applied to the very object encode_raw returned, and "
        "every encode result is kept and must still hold the same bytes after every later step "
        "(enumerated: pairs of objects of one type and of neighbouring types, every ordered pair "
        "(previous type, target type) with non-integral reals / -0.0 / subnormals / bool / text values; "
        "random histories by Hypothesis). Oracle: int.to_bytes / hand-written IEEE 754 decoder / "
        "code-unit string encoder. Non-trivial = anything but an in-range integer with |v| < 100; "
        "distinct = canonical JSON of the case.")
ASSUMPTIONS = [
    "trailing NUL characters are excluded from text (decode_raw documents stripping them)",
    "REAL32 values are binary32-representable (others are rounded by any codec)",
    "'rejected' accepts any exception type",
    "'its range' is the range of the DATA TYPE: declared limits (min/max, LowLimit/HighLimit) do not "
    "narrow it - the statement is unconditional and the library documents limits as a warning only",
    "data_type is a plain public attribute; an object whose data_type is re-assigned is judged by the "
    "type it has at the time of the call",
    "the result of encode_raw is the caller's: a later codec call must not change the bytes it holds "
    "(its Python type is free: bytes, bytearray, memoryview are all accepted)",
    "BOOLEAN bytes other than 00/01 are not pinned by the statement: True or an exception are accepted",
]
BUDGET = {"quick": 150, "thorough": 300}

_vars = {}


def _lim_text(x):
    """A limit as EDS text (negative numbers in decimal, CiA 306 allows both notations)."""
    return repr(x) if isinstance(x, float) else str(int(x))


def _make_var(dt, src="code", lim=None):
    """A fresh variable object of data type dt (None: not set), made in code or (src='eds') taken from a
    dictionary imported from an EDS text that declares an object of that data type; lim = [min, max]
    (either may be None) are declared limits: attributes in code, LowLimit/HighLimit in the EDS."""
    if src == "eds":
        import io

        import canopen
        from harness.c02 import render_eds
        text = render_eds([{"kind": "var", "index": 0x2000, "name": "v", "dt": dt}], False)
        if lim:
            extra = ""
            if lim[0] is not None:
                extra += f"LowLimit={_lim_text(lim[0])}\n"
            if lim[1] is not None:
                extra += f"HighLimit={_lim_text(lim[1])}\n"
            assert text.count("PDOMapping=0\n") == 1
            text = text.replace("PDOMapping=0\n", extra + "PDOMapping=0\n")
        fp = io.StringIO(text)
        fp.name = "generated.eds"
        v = canopen.import_od(fp, 1)[0x2000]
    else:
        from canopen.objectdictionary import ODVariable
        v = ODVariable("v", 0x2000, 0)
        if dt is not None:
            v.data_type = dt
        if lim:
            v.min, v.max = lim
    return v


def _var(dt, src="code", lim=None):
    """The (cached) variable whose codec is exercised by the single ops."""
    key = (dt, src, tuple(lim) if lim else None)
    v = _vars.get(key)
    if v is None:
        v = _vars[key] = _make_var(dt, src, lim)
    return v


def run_case(case) -> Outcome:
    if case["op"] == "hist":
        return _run_hist(case)
    out = _run_single(case)
    if case.get("lim"):
        out.klass += "/lim"
    return out


def _run_single(case) -> Outcome:
    op, dt = case["op"], case["dt"]
    lim = case.get("lim")
    if case.get("prev") is not None:
        # the same variable object described another data type before and was used as such
        # (data_type is a plain public attribute; tools that build dictionaries in code re-use objects)
        from canopen.objectdictionary import ODVariable
        var = ODVariable("v", 0x2000, 0)
        if case["prev"]:
            var.data_type = case["prev"]
            try:
                len(var)
                var.decode_raw(var.encode_raw(1))
            except Exception:
                pass
        else:
            len(var)                    # looked at before the type was known
        var.data_type = dt
        if lim:
            var.min, var.max = lim
    else:
        var = _var(dt, case.get("src", "code"), lim)
    D = []
    name = rc.NAMES[dt]

    def bad(kind, detail):
        D.append(Discrepancy(f"C04/{op}/{kind}", f"{name} {detail}"))

    if op == "int":
        v = case["v"]
        want = rc.enc_int(dt, v)
        try:
            got = var.encode_raw(v)
        except Exception as e:
            bad("encode-raises", f"encode_raw({v}) raised {type(e).__name__}: {e}")
            return Outcome(True, f"int/{name}", D)
        if bytes(got) != want:
            bad("encode-bytes", f"encode_raw({v}) = {bytes(got).hex()} want {want.hex()}")
        try:
            back = var.decode_raw(want)
            if back != v or isinstance(back, bool):
                bad("decode-value", f"decode_raw({want.hex()}) = {back!r} want {v}")
        except Exception as e:
            bad("decode-raises", f"decode_raw({want.hex()}) raised {type(e).__name__}: {e}")
        if len(var) != rc.width(dt):
            bad("len", f"len(var) = {len(var)} want {rc.width(dt)}")
        return Outcome(abs(v) >= 100, f"int/{name}", D)

    if op == "oor":
        v = case["v"]
        lo, hi = rc.int_range(dt)
        assert v < lo or v > hi
        try:
            got = var.encode_raw(v)
        except Exception:
            return Outcome(True, f"oor/{name}", D)
        bad("wrapped", f"encode_raw({v}) returned {bytes(got).hex()} instead of raising "
                       f"(range {lo}..{hi})")
        return Outcome(True, f"oor/{name}", D)

    if op == "bytes":
        b = case["b"]
        right = len(b) == rc.width(dt) // 8
        # BOOLEAN: the statement pins 00/01 only (CiA 301: FALSE=0, TRUE=1); for any other byte a strict
        # decoder may refuse, a lenient one says True
        pinned = not (dt == rc.BOOLEAN and right and b[0] > 1)
        if case.get("mutable") and right:
            # received data is a bytearray (python-can, Network.notify): decoding must leave it alone
            # and a second decode of the same buffer must give the same value
            buf = bytearray(b)
            try:
                v1 = var.decode_raw(buf)
                if bytes(buf) != bytes(b):
                    bad("decode-changed-input", f"decode_raw(bytearray {bytes(b).hex()}) left the buffer as "
                                                f"{bytes(buf).hex()}")
                else:
                    v2 = var.decode_raw(buf)
                    if not rc.values_equal(dt, v1, v2) and not (isinstance(v1, float) and v1 != v1):
                        bad("decode-not-repeatable", f"second decode of {bytes(b).hex()} gave {v2!r}, first {v1!r}")
            except Exception as e:
                if bytes(buf) != bytes(b):
                    bad("decode-changed-input", f"decode_raw(bytearray {bytes(b).hex()}) left the buffer as "
                                                f"{bytes(buf).hex()}")
                elif pinned:
                    bad("decode-raises", f"decode_raw(bytearray {bytes(b).hex()}) raised {type(e).__name__}: {e}")
            if D:
                return Outcome(True, f"bytes/{name}/bytearray", D)
        try:
            val = var.decode_raw(bytes(b))
        except Exception as e:
            if right and pinned:
                bad("decode-raises", f"decode_raw({bytes(b).hex()}) raised {type(e).__name__}: {e}")
            return Outcome(True, f"bytes/{name}/{'right' if right else 'wrong'}-length", D)
        if not right:
            bad("wrong-length-decoded", f"decode_raw({bytes(b).hex()}) ({len(b)} bytes) gave {val!r}")
            return Outcome(True, f"bytes/{name}/wrong-length", D)
        if dt in rc.INTEGERS:
            want = rc.dec_int(dt, bytes(b))
            if val != want:
                bad("decode-value", f"decode_raw({bytes(b).hex()}) = {val!r} want {want}")
            else:
                try:
                    again = var.encode_raw(val)
                    if bytes(again) != bytes(b):
                        bad("reencode", f"encode_raw(decode_raw({bytes(b).hex()})) = {bytes(again).hex()}")
                except Exception as e:
                    bad("reencode-raises", f"encode_raw({val!r}) raised {type(e).__name__}: {e}")
        elif dt in rc.REALS:
            want = rc.dec_real(dt, bytes(b))
            if not rc.float_bits_equal(float(val), want) or not isinstance(val, float):
                bad("decode-value", f"decode_raw({bytes(b).hex()}) = {val!r} want {want!r}")
        elif dt == rc.BOOLEAN:
            if val is not (b[0] != 0):
                bad("decode-value", f"decode_raw({bytes(b).hex()}) = {val!r}")
        return Outcome(True, f"bytes/{name}/right-length", D)

    if op == "real":
        w = rc.REALS[dt]
        bits = case["bits"]
        pattern = bits.to_bytes(w // 8, "little")
        v = rc.dec_real(dt, pattern)          # reference value of that pattern
        try:
            got = bytes(var.encode_raw(v))
        except Exception as e:
            bad("encode-raises", f"encode_raw({v!r}) raised {type(e).__name__}: {e}")
            return Outcome(True, f"real/{name}", D)
        if len(got) != w // 8:
            bad("encode-length", f"encode_raw({v!r}) has {len(got)} bytes")
        else:
            ref = rc.dec_real(dt, got)
            if not rc.float_bits_equal(ref, v):
                bad("encode-bytes", f"encode_raw({v!r}) = {got.hex()} which is {ref!r}")
            if not math.isnan(v) and got != pattern:
                bad("encode-bytes", f"encode_raw({v!r}) = {got.hex()} want {pattern.hex()}")
            try:
                back = var.decode_raw(got)
                if not rc.float_bits_equal(float(back), v):
                    bad("roundtrip", f"decode_raw(encode_raw({v!r})) = {back!r}")
            except Exception as e:
                bad("decode-raises", f"decode_raw({got.hex()}) raised {type(e).__name__}")
        if len(var) != w:
            bad("len", f"len(var) = {len(var)}")
        return Outcome(True, f"real/{name}/{_fclass(v)}", D)

    if op == "real_oor":
        v = case["v"]
        try:
            got = var.encode_raw(v)
        except Exception:
            return Outcome(True, f"real_oor/{name}", D)
        bad("wrapped", f"encode_raw({v!r}) returned {bytes(got).hex()} instead of raising")
        return Outcome(True, f"real_oor/{name}", D)

    if op == "bool":
        v = case["v"]
        try:
            got = bytes(var.encode_raw(v))
            if got != (b"\x01" if v else b"\x00"):
                bad("encode-bytes", f"encode_raw({v}) = {got.hex()}")
            back = var.decode_raw(got)
            if back is not v:
                bad("roundtrip", f"decode_raw(encode_raw({v})) = {back!r}")
        except Exception as e:
            bad("raises", f"{type(e).__name__}: {e}")
        if len(var) != 8:
            bad("len", f"len(var) = {len(var)}")
        return Outcome(True, "bool", D)

    if op == "text":
        s = case["s"]
        want = rc.enc_visible(s) if dt == rc.VISIBLE_STRING else rc.enc_unicode(s)
        try:
            got = bytes(var.encode_raw(s))
            if got != want:
                bad("encode-bytes", f"encode_raw({s!r}) = {got.hex()} want {want.hex()}")
            back = var.decode_raw(want)
            if back != s:
                bad("roundtrip", f"decode_raw({want.hex()}) = {back!r} want {s!r}")
        except Exception as e:
            bad("raises", f"{s!r}: {type(e).__name__}: {e}")
        return Outcome(len(s) > 0, f"text/{name}", D)

    raise ValueError(op)


TEXTS = (rc.VISIBLE_STRING, rc.UNICODE_STRING)
RAWS = (rc.OCTET_STRING, rc.DOMAIN)


def _run_hist(case) -> Outcome:
    """A history over a few variable objects.  objs: [{dt (None = not set), src, lim}], steps:
      {k: enc, o, v}    integer (current type integer: in range -> exact bytes, else rejected) / bool
      {k: enc, o, bits} IEEE pattern of the current REAL type, the value encoded is its reference value
      {k: enc, o, f}    finite double beyond the binary32 range (current type REAL32): rejected
      {k: enc, o, s}    text (current type VISIBLE_STRING / UNICODE_STRING)
      {k: dec, o, b}    byte string (current type integer / real / BOOLEAN), any length
      {k: dec, o, s}    the reference encoding of text s
      {k: len, o}       len(var)
      {k: type, o, dt}  var.data_type = dt
      {k: raw, o, b}    current type OCTET_STRING / DOMAIN (outside the property: used, not judged)
    Every step is judged against the object's current type; every encode result is kept and must hold
    the same bytes after every later step."""
    objs = [_make_var(o["dt"], o.get("src", "code"), o.get("lim")) for o in case["objs"]]
    cur = [o["dt"] for o in case["objs"]]
    D = []
    kept = []          # (description, object returned by encode_raw, its bytes when it was returned)
    feats = set()
    if len(objs) > 1:
        feats.add("same-type-objs" if len(set(cur)) < len(cur) else "multi-type-objs")
    if any(o.get("lim") for o in case["objs"]):
        feats.add("lim")
    if any(o.get("src") == "eds" for o in case["objs"]):
        feats.add("eds")

    def bad(kind, detail):
        D.append(Discrepancy(f"C04/hist/{kind}", detail))

    def out():
        order = ("same-type-objs", "multi-type-objs", "retype", "reuse", "oor", "wrong-length", "lim", "eds")
        return Outcome(True, "hist/" + "+".join(f for f in order if f in feats), D)

    used = set()
    for n, st_ in enumerate(case["steps"]):
        i, k = st_["o"], st_["k"]
        var, dt = objs[i], cur[i]
        name = rc.NAMES.get(dt, "untyped")
        at = f"step {n} obj {i} {name}:"
        if k == "type":
            var.data_type = st_["dt"]
            cur[i] = st_["dt"]
            feats.add("retype")
        elif k == "len":
            try:
                got = len(var)
            except Exception as e:
                bad("len-raises", f"{at} len(var) raised {type(e).__name__}: {e}")
                return out()
            if (dt in rc.NUMERIC or dt == rc.BOOLEAN) and got != rc.width(dt):
                bad("len", f"{at} len(var) = {got} want {rc.width(dt)}")
        elif k == "raw":
            if dt not in RAWS:
                return Outcome(excluded="hist/step-does-not-fit-type")
            try:
                var.decode_raw(var.encode_raw(bytes(st_["b"])))
            except Exception:
                pass
        elif k == "enc":
            if i in used:
                feats.add("reuse")
            used.add(i)
            # ---- what the property says about this value for the current type
            reject = False
            want = None
            if dt in rc.INTEGERS and isinstance(st_.get("v"), int) and not isinstance(st_.get("v"), bool):
                v = st_["v"]
                lo, hi = rc.int_range(dt)
                if lo <= v <= hi:
                    want = rc.enc_int(dt, v)
                else:
                    reject = True
                    feats.add("oor")
            elif dt == rc.BOOLEAN and isinstance(st_.get("v"), bool):
                v = st_["v"]
                want = b"\x01" if v else b"\x00"
            elif dt in rc.REALS and "bits" in st_ and st_["bits"] < (1 << rc.REALS[dt]):
                want = st_["bits"].to_bytes(rc.REALS[dt] // 8, "little")
                v = rc.dec_real(dt, want)
                if math.isnan(v):
                    want = None    # any NaN pattern of that width is a representation of NaN
            elif dt == rc.REAL32 and "f" in st_ and abs(st_["f"]) >= 3.5e38 and not math.isinf(st_["f"]):
                v = st_["f"]
                reject = True
                feats.add("oor")
            elif dt in TEXTS and isinstance(st_.get("s"), str):
                v = st_["s"]
                want = rc.enc_visible(v) if dt == rc.VISIBLE_STRING else rc.enc_unicode(v)
            else:
                return Outcome(excluded="hist/step-does-not-fit-type")
            try:
                got = var.encode_raw(v)
            except Exception as e:
                if not reject:
                    bad("encode-raises", f"{at} encode_raw({v!r}) raised {type(e).__name__}: {e}")
                    return out()
                got = None
            if got is not None:
                try:
                    snap = bytes(got)
                except Exception as e:
                    bad("encode-type", f"{at} encode_raw({v!r}) returned {type(got).__name__}: {e}")
                    return out()
                if reject:
                    bad("wrapped", f"{at} encode_raw({v!r}) returned {snap.hex()} instead of raising")
                    return out()
                if want is not None and snap != want:
                    bad("encode-bytes", f"{at} encode_raw({v!r}) = {snap.hex()} want {want.hex()}")
                    return out()
                if want is None and not (len(snap) == rc.REALS[dt] // 8 and math.isnan(rc.dec_real(dt, snap))):
                    bad("encode-bytes", f"{at} encode_raw(nan) = {snap.hex()}")
                    return out()
                # "decoding those bytes returns the value": the very object that was returned
                try:
                    back = var.decode_raw(got)
                except Exception as e:
                    bad("roundtrip-raises", f"{at} decode_raw(encode_raw({v!r})) raised {type(e).__name__}: {e}")
                    return out()
                if not _same_value(dt, back, v):
                    bad("roundtrip", f"{at} decode_raw(encode_raw({v!r})) = {back!r}")
                    return out()
                kept.append((f"encode_raw({v!r}) of step {n} ({name}, obj {i})", got, snap))
        elif k == "dec":
            if "s" in st_:
                if dt not in TEXTS:
                    return Outcome(excluded="hist/step-does-not-fit-type")
                s = st_["s"]
                b = rc.enc_visible(s) if dt == rc.VISIBLE_STRING else rc.enc_unicode(s)
                try:
                    val = var.decode_raw(b)
                    if val != s or not isinstance(val, str):
                        bad("decode-value", f"{at} decode_raw({b.hex()}) = {val!r} want {s!r}")
                except Exception as e:
                    bad("decode-raises", f"{at} decode_raw({b.hex()}) raised {type(e).__name__}: {e}")
            else:
                if not (dt in rc.NUMERIC or dt == rc.BOOLEAN):
                    return Outcome(excluded="hist/step-does-not-fit-type")
                b = bytes(st_["b"])
                right = len(b) == rc.width(dt) // 8
                if not right:
                    feats.add("wrong-length")
                pinned = not (dt == rc.BOOLEAN and right and b[0] > 1)
                buf = bytearray(b) if st_.get("mutable") else b
                try:
                    val = var.decode_raw(buf)
                except Exception as e:
                    if right and pinned:
                        bad("decode-raises", f"{at} decode_raw({b.hex()}) raised {type(e).__name__}: {e}")
                    elif bytes(buf) != b:
                        bad("decode-changed-input", f"{at} decode_raw(bytearray {b.hex()}) left it as {bytes(buf).hex()}")
                else:
                    if bytes(buf) != b:
                        bad("decode-changed-input", f"{at} decode_raw(bytearray {b.hex()}) left it as {bytes(buf).hex()}")
                        return out()
                    if not right:
                        bad("wrong-length-decoded", f"{at} decode_raw({b.hex()}) ({len(b)} bytes) gave {val!r}")
                    elif dt in rc.INTEGERS:
                        want = rc.dec_int(dt, b)
                        if val != want or isinstance(val, bool):
                            bad("decode-value", f"{at} decode_raw({b.hex()}) = {val!r} want {want}")
                    elif dt in rc.REALS:
                        want = rc.dec_real(dt, b)
                        if not isinstance(val, float) or not rc.float_bits_equal(val, want):
                            bad("decode-value", f"{at} decode_raw({b.hex()}) = {val!r} want {want!r}")
                    elif val is not (b[0] != 0):
                        bad("decode-value", f"{at} decode_raw({b.hex()}) = {val!r}")
        else:
            raise ValueError(k)
        if D:
            return out()
        for what, got, snap in kept:
            now = bytes(got)
            if now != snap:
                bad("result-changed", f"the result of {what} was {snap.hex()} and holds {now.hex()} after {at} {k}")
                return out()
    return out()


def _same_value(dt, back, v):
    if dt in rc.INTEGERS:
        return back == v and not isinstance(back, bool)
    if dt == rc.BOOLEAN:
        return back is v
    if dt in rc.REALS:
        return isinstance(back, float) and rc.float_bits_equal(back, v)
    return isinstance(back, str) and back == v


def _fclass(v):
    if math.isnan(v):
        return "nan"
    if math.isinf(v):
        return "inf"
    if v == 0:
        return "zero"
    if abs(v) < 2.3e-308:
        return "tiny"
    return "normal"


# ---- generation ------------------------------------------------------------
FIXED = [rc.BOOLEAN] + sorted(rc.NUMERIC)              # the types with a fixed width
PROP_TYPES = FIXED + list(TEXTS)                         # the types the statement names


def limit_kinds(dt):
    """Declared limits [min, max] a variable of type dt may carry: strictly inside the type's range,
    equal to it, inverted, one-sided, small, degenerate."""
    if dt == rc.BOOLEAN:
        return [[0, 0], [1, 1], [1, 0]]
    if dt in rc.REALS:
        top = 3.4028234663852886e38 if dt == rc.REAL32 else 1.7976931348623157e308
        return [[-1.5, 2.5], [-top, top], [2.5, -1.5], [0.0, 0.0], [None, 1e-40], [1e30, None]]
    lo, hi = rc.int_range(dt)
    q = (hi - lo) // 4
    kinds = [[lo + q, hi - q], [lo, hi], [hi - q, lo + q], [lo + q, None], [None, hi - q], [10, 100], [0, 0]]
    if lo < 0:
        kinds.append([-100, -10])
    return kinds


def near_limits(dt, lim):
    lo, hi = rc.int_range(dt)
    return sorted({x + d for x in lim if x is not None for d in (-2, -1, 0, 1, 2) if lo <= x + d <= hi})


def real_samples(dt):
    """non-integral values, -0.0, subnormals, largest finite, infinities (as bit patterns)"""
    if dt == rc.REAL32:
        return [0x3FC00000, 0xBF400000, 0x80000000, 0x00000001, 0x00400000, 0x7F7FFFFF, 0xFF800000, 0x7FC00000]
    return [0x3FF8 << 48, 0xBFE8 << 48, 1 << 63, 1, 1 << 51, 0x7FEFFFFFFFFFFFFF, 0xFFF0 << 48, 0x7FF8 << 48]


def enc_samples(dt, oor=True):
    """payloads of enc steps for a type: range ends, small values, (just) out-of-range values"""
    if dt == rc.BOOLEAN:
        return [{"v": True}, {"v": False}]
    if dt in rc.REALS:
        out = [{"bits": x} for x in real_samples(dt)]
        if oor and dt == rc.REAL32:
            out += [{"f": 1e39}, {"f": -3.5e38}]
        return out
    if dt == rc.VISIBLE_STRING:
        return [{"s": "a\x7fz"}, {"s": "\x00x"}, {"s": ""}]
    if dt == rc.UNICODE_STRING:
        return [{"s": "a\u20acz"}, {"s": "\ufeffx"}, {"s": "\x00\uffff"}]
    lo, hi = rc.int_range(dt)
    out = [{"v": hi - 24}, {"v": 77}, {"v": lo}, {"v": hi}, {"v": -1 if lo < 0 else 1}]
    if oor:
        out += [{"v": hi + 1}, {"v": lo - 1}]
    return out


def dec_samples(dt):
    if dt in TEXTS:
        return [{"s": "q\x00r" if dt == rc.VISIBLE_STRING else "q\x00\u0100"}]
    n = rc.width(dt) // 8
    if dt == rc.BOOLEAN:
        return [{"b": b"\x01"}, {"b": b"\x00\x00"}, {"b": b""}]
    return [{"b": bytes(range(0x81, 0x81 + n))}, {"b": bytes(n + 1)}, {"b": bytes(range(0x11, 0x11 + n - 1))},
            {"b": bytes(range(0x71, 0x71 + n)), "mutable": True}]


def use_steps(dt, o, short=False):
    """steps that use object o as a variable of (its current) type dt"""
    if dt is None:
        return [{"k": "len", "o": o}]
    if dt in RAWS:
        return [{"k": "len", "o": o}, {"k": "raw", "o": o, "b": b"\x01\x02\x03"}]
    e = enc_samples(dt)
    d = dec_samples(dt)
    if short:
        e, d = e[:2], d[:1]
    return ([{"k": "len", "o": o}] + [dict(x, k="enc", o=o) for x in e] + [dict(x, k="dec", o=o) for x in d]
            + [dict(e[0], k="enc", o=o)])


def pair_cases():
    """two variable objects of one type (or of neighbouring types), or one object used repeatedly: results
    of earlier encodes are kept while later ones are made"""
    for n, dt in enumerate(PROP_TYPES):
        e = enc_samples(dt, oor=False)
        d = dec_samples(dt)
        nb = PROP_TYPES[(n + 1) % len(PROP_TYPES)]
        for objs in ([{"dt": dt}, {"dt": dt}], [{"dt": dt}, {"dt": dt, "src": "eds"}], [{"dt": dt}],
                     [{"dt": dt, "src": "eds"}, {"dt": dt, "src": "eds"}], [{"dt": dt}, {"dt": nb}]):
            b = len(objs) - 1
            steps = [dict(e[0], k="enc", o=0), dict(e[1], k="enc", o=b), dict(d[0], k="dec", o=0),
                     dict(e[-1], k="enc", o=b), dict(e[0], k="enc", o=b), {"k": "len", "o": 0}]
            if objs[b]["dt"] != dt:
                steps = [dict(e[0], k="enc", o=0)] + use_steps(nb, b) + [dict(e[1], k="enc", o=0)] + \
                    use_steps(nb, b, short=True)
            yield {"op": "hist", "objs": objs, "steps": steps}
            if dt in rc.NUMERIC:
                lim = limit_kinds(dt)[0]
                yield {"op": "hist", "objs": [dict(o, lim=lim) for o in objs], "steps": steps}


def retype_cases():
    """one variable object that described type P (or none yet) and was used as such, then describes T, then
    P again, then T: every ordered pair, the values of use_steps (non-integral reals, -0.0, subnormals,
    bool, text, range ends and just-out-of-range integers)"""
    k = 0
    for P in [None] + PROP_TYPES + list(RAWS):
        for T in PROP_TYPES:
            if P == T:
                continue
            k += 1
            obj = {"dt": P}
            if P is not None and k % 3 == 0:
                obj["src"] = "eds"
            steps = use_steps(P, 0, short=True) + [{"k": "type", "o": 0, "dt": T}] + use_steps(T, 0)
            if P is not None:
                steps += [{"k": "type", "o": 0, "dt": P}] + use_steps(P, 0) + [{"k": "type", "o": 0, "dt": T}] + \
                    use_steps(T, 0, short=True)
            yield {"op": "hist", "objs": [obj], "steps": steps}


def boundary_ints(dt):
    lo, hi = rc.int_range(dt)
    w = rc.INTEGERS[dt]
    s = set()
    for k in range(0, w + 1):
        for base in (1 << k, -(1 << k)):
            for d in (-2, -1, 0, 1, 2):
                s.add(base + d)
    for base in (0, lo, hi):
        for d in (-2, -1, 0, 1, 2):
            s.add(base + d)
    return sorted(v for v in s if lo <= v <= hi)


def oor_ints(dt):
    lo, hi = rc.int_range(dt)
    s = {lo - 1, lo - 2, hi + 1, hi + 2}
    for k in range(rc.INTEGERS[dt] - 1, 71):
        for base in (1 << k, -(1 << k)):
            for d in (-1, 0, 1):
                s.add(base + d)
    return sorted(v for v in s if v < lo or v > hi)


def real_patterns(dt):
    w = rc.REALS[dt]
    eb, mb = (8, 23) if w == 32 else (11, 52)
    exps = sorted(set(list(range(0, 4)) + list(range((1 << eb) - 4, 1 << eb)) +
                      [(1 << (eb - 1)) + d for d in range(-3, 4)] +
                      (list(range(0, 1 << eb)) if w == 32 else list(range(0, 1 << eb, 37)))))
    mants = [0, 1, 2, (1 << mb) - 1, (1 << mb) - 2, 1 << (mb - 1), (1 << (mb - 1)) - 1,
             (1 << (mb - 1)) + 1, 0x2AAAAA & ((1 << mb) - 1), 0x155555 & ((1 << mb) - 1)]
    for sign in (0, 1):
        for e in exps:
            for m in mants:
                yield (sign << (w - 1)) | (e << mb) | m


def search(ctx):
    thorough = ctx.tier == "thorough"

    def gen_enum():
        # exhaustive 8- and 16-bit
        for dt in (rc.INTEGER8, rc.UNSIGNED8, rc.INTEGER16, rc.UNSIGNED16):
            lo, hi = rc.int_range(dt)
            for v in range(lo, hi + 1):
                yield {"op": "int", "dt": dt, "v": v}
        for dt in sorted(rc.INTEGERS):
            if rc.INTEGERS[dt] > 16:
                for v in boundary_ints(dt):
                    yield {"op": "int", "dt": dt, "v": v}
            for v in oor_ints(dt):
                yield {"op": "oor", "dt": dt, "v": v}
            # the same codec reached through a dictionary imported from EDS text
            for v in boundary_ints(dt):
                yield {"op": "int", "dt": dt, "v": v, "src": "eds"}
            for v in list(oor_ints(dt))[:4]:
                yield {"op": "oor", "dt": dt, "v": v, "src": "eds"}
            yield {"op": "bytes", "dt": dt, "b": bytes(range(0x81, 0x81 + rc.width(dt) // 8)), "src": "eds"}
            yield {"op": "bytes", "dt": dt, "b": bytes(rc.width(dt) // 8 + 1), "src": "eds"}
            # ... and through a variable object that was of another type before
            others = sorted(rc.INTEGERS)
            for k, v in enumerate(boundary_ints(dt)):
                prev = others[(others.index(dt) + 1 + k) % len(others)]
                yield {"op": "int", "dt": dt, "v": v, "prev": prev if prev != dt else 0}
            yield {"op": "int", "dt": dt, "v": 1, "prev": 0}
            yield {"op": "bytes", "dt": dt, "b": bytes(range(0x81, 0x81 + rc.width(dt) // 8)), "prev": rc.REAL64}
        for dt in sorted(rc.REALS):
            for bits in list(real_patterns(dt))[:12]:
                yield {"op": "real", "dt": dt, "bits": bits, "src": "eds"}
        yield {"op": "bool", "dt": rc.BOOLEAN, "v": True, "src": "eds"}
        for v in (False, True):
            yield {"op": "bool", "dt": rc.BOOLEAN, "v": v}
        # byte strings: every 1- and 2-byte pattern for the 8/16-bit types + BOOLEAN
        for dt in (rc.INTEGER8, rc.UNSIGNED8, rc.BOOLEAN):
            for x in range(256):
                yield {"op": "bytes", "dt": dt, "b": bytes([x])}
        for dt in (rc.INTEGER16, rc.UNSIGNED16):
            for x in range(65536):
                yield {"op": "bytes", "dt": dt, "b": x.to_bytes(2, "little")}
        # every length 0..9 for every fixed-size type, several fill patterns
        for dt in [rc.BOOLEAN] + sorted(rc.NUMERIC):
            for n in range(0, 10):
                for fill in (b"\x00", b"\xff", b"\x80", b"\x7f", b"\x01"):
                    yield {"op": "bytes", "dt": dt, "b": fill * n}
                yield {"op": "bytes", "dt": dt, "b": bytes(range(0x81, 0x81 + n))}
                yield {"op": "bytes", "dt": dt, "b": bytes(range(0x11, 0x11 + n)), "mutable": True}
        for dt in sorted(rc.REALS):
            for bits in real_patterns(dt):
                yield {"op": "real", "dt": dt, "bits": bits}
        for v in (3.5e38, -3.5e38, 1e39, -1e300, 1.7976931348623157e308):
            yield {"op": "real_oor", "dt": rc.REAL32, "v": v}
        # every single ASCII / sampled BMP character (trailing NUL excluded)
        for cp in range(1, 128):
            yield {"op": "text", "dt": rc.VISIBLE_STRING, "s": chr(cp)}
            yield {"op": "text", "dt": rc.VISIBLE_STRING, "s": "a" + chr(cp) + "z"}
        yield {"op": "text", "dt": rc.VISIBLE_STRING, "s": "\x00x"}
        yield {"op": "text", "dt": rc.VISIBLE_STRING, "s": ""}
        yield {"op": "text", "dt": rc.UNICODE_STRING, "s": ""}
        for cp in range(1, 0x10000):
            if 0xD800 <= cp <= 0xDFFF:
                continue
            yield {"op": "text", "dt": rc.UNICODE_STRING, "s": chr(cp)}
            if thorough or cp % 5 == 0:
                yield {"op": "text", "dt": rc.UNICODE_STRING, "s": "a" + chr(cp) + "z"}

        yield {"op": "text", "dt": rc.VISIBLE_STRING, "s": "a\x00b"}
        for s_ in ("\x00x", "a\x00b", "\x00\x00\u0100", "\ufeff", "\ufffe\x00x"):
            yield {"op": "text", "dt": rc.UNICODE_STRING, "s": s_}

    ctx.enumerate(gen_enum(), "8/16-bit values and byte patterns, boundaries, lengths 0..9, characters")

    def gen_lim():
        # the variable carries declared limits (code: min/max, EDS: LowLimit/HighLimit); same oracle
        k = 0
        for dt in sorted(rc.INTEGERS):
            w = rc.INTEGERS[dt]
            lo, hi = rc.int_range(dt)
            bnd = boundary_ints(dt)
            oor = oor_ints(dt)
            for n, lim in enumerate(limit_kinds(dt)):
                if w == 8 or (w == 16 and (thorough or n == 0)):
                    vals = range(lo, hi + 1)
                else:
                    vals = sorted(set(bnd[n % 2::2] if not thorough else bnd) | set(near_limits(dt, lim)))
                for v in vals:
                    k += 1
                    c = {"op": "int", "dt": dt, "v": v, "lim": lim}
                    if k % 3 == 0:
                        c["src"] = "eds"
                    elif k % 31 == 1:
                        c["prev"] = rc.REAL64
                    yield c
                for j, v in enumerate(oor):
                    if j % 4 == n % 4 or v in (lo - 1, lo - 2, hi + 1, hi + 2) or thorough:
                        k += 1
                        yield {"op": "oor", "dt": dt, "v": v, "lim": lim, "src": "eds" if k % 2 else "code"}
                nb = w // 8
                for b in (bytes(nb), b"\xff" * nb, b"\x7f" * nb, b"\x80" * nb, bytes(range(0x81, 0x81 + nb)),
                          bytes(nb + 1), bytes(nb - 1)):
                    k += 1
                    yield {"op": "bytes", "dt": dt, "b": b, "lim": lim, "src": "eds" if k % 2 else "code"}
        for dt in sorted(rc.REALS):
            kinds = limit_kinds(dt)
            for n, bits in enumerate(real_patterns(dt)):
                yield {"op": "real", "dt": dt, "bits": bits, "lim": kinds[n % len(kinds)],
                       "src": "eds" if n % 3 == 0 else "code"}
            for lim in kinds:
                for bits in real_samples(dt):
                    yield {"op": "real", "dt": dt, "bits": bits, "lim": lim}
                    yield {"op": "real", "dt": dt, "bits": bits, "lim": lim, "src": "eds"}
        for lim in limit_kinds(rc.REAL32):
            for v in (3.5e38, -3.5e38, 1e39, -1e300, 1.7976931348623157e308):
                yield {"op": "real_oor", "dt": rc.REAL32, "v": v, "lim": lim}
        for lim in limit_kinds(rc.BOOLEAN):
            for v in (False, True):
                yield {"op": "bool", "dt": rc.BOOLEAN, "v": v, "lim": lim}
                yield {"op": "bool", "dt": rc.BOOLEAN, "v": v, "lim": lim, "src": "eds"}

    ctx.enumerate(gen_lim(), "variables with declared limits: boundaries, values around the limits, out of range")

    def gen_hist():
        yield from pair_cases()
        yield from retype_cases()

    ctx.enumerate(gen_hist(), "histories: pairs of objects of one type, every ordered pair (previous type, type)")

    wide = [dt for dt in sorted(rc.INTEGERS) if rc.INTEGERS[dt] > 16]

    def with_lim(draw, case):
        # one case in four: the variable carries declared limits
        if draw(st.integers(0, 3)) == 0:
            case["lim"] = draw(st.sampled_from(limit_kinds(case["dt"])))
        return case

    @st.composite
    def rand_case(draw):
        kind = draw(st.sampled_from(["int", "int", "oor", "bytes", "real", "text", "text"]))
        if kind == "int":
            dt = draw(st.sampled_from(wide))
            lo, hi = rc.int_range(dt)
            return with_lim(draw, {"op": "int", "dt": dt, "v": draw(st.integers(lo, hi)),
                                   "src": draw(st.sampled_from(["code", "code", "eds"]))})
        if kind == "oor":
            dt = draw(st.sampled_from(sorted(rc.INTEGERS)))
            lo, hi = rc.int_range(dt)
            mag = draw(st.integers(1, 1 << 72))
            v = hi + mag if draw(st.booleans()) else lo - mag
            return with_lim(draw, {"op": "oor", "dt": dt, "v": v})
        if kind == "bytes":
            dt = draw(st.sampled_from([rc.BOOLEAN] + sorted(rc.NUMERIC)))
            n = draw(st.one_of(st.just(rc.width(dt) // 8), st.integers(0, 9)))
            return {"op": "bytes", "dt": dt, "b": draw(st.binary(min_size=n, max_size=n)),
                    "mutable": draw(st.booleans())}
        if kind == "real":
            dt = draw(st.sampled_from(sorted(rc.REALS)))
            return with_lim(draw, {"op": "real", "dt": dt, "bits": draw(st.integers(0, (1 << rc.REALS[dt]) - 1))})
        dt = draw(st.sampled_from([rc.VISIBLE_STRING, rc.UNICODE_STRING]))
        if dt == rc.VISIBLE_STRING:
            alpha = st.characters(min_codepoint=0, max_codepoint=127)
        else:
            alpha = st.characters(min_codepoint=0, max_codepoint=0xFFFF, exclude_categories=["Cs"])
        s = draw(st.text(alpha, max_size=40)).rstrip("\x00")
        return {"op": "text", "dt": dt, "s": s}


    bnd = {dt: boundary_ints(dt) for dt in rc.INTEGERS}

    def draw_enc(draw, dt):
        if dt == rc.BOOLEAN:
            return {"v": draw(st.booleans())}
        if dt in rc.REALS:
            if dt == rc.REAL32 and draw(st.integers(0, 9)) == 0:
                f = draw(st.floats(3.5e38, 1.7976931348623157e308))
                return {"f": f if draw(st.booleans()) else -f}
            return {"bits": draw(st.one_of(st.sampled_from(real_samples(dt)),
                                           st.integers(0, (1 << rc.REALS[dt]) - 1)))}
        if dt in TEXTS:
            return {"s": draw(text_of(dt, 12))}
        lo, hi = rc.int_range(dt)
        if draw(st.integers(0, 7)) == 0:
            mag = draw(st.one_of(st.integers(1, 3), st.integers(1, 1 << 66)))
            return {"v": hi + mag if draw(st.booleans()) else lo - mag}
        return {"v": draw(st.one_of(st.sampled_from(bnd[dt]), st.integers(lo, hi)))}

    def text_of(dt, n):
        if dt == rc.VISIBLE_STRING:
            alpha = st.characters(min_codepoint=0, max_codepoint=127)
        else:
            alpha = st.characters(min_codepoint=0, max_codepoint=0xFFFF, exclude_categories=["Cs"])
        return st.text(alpha, max_size=n).map(lambda s_: s_.rstrip("\x00"))

    @st.composite
    def hist_case(draw):
        n = draw(st.integers(1, 3))
        base = draw(st.sampled_from(PROP_TYPES))
        objs = []
        for _ in range(n):
            dt = base if draw(st.integers(0, 3)) else draw(st.sampled_from(PROP_TYPES))
            o = {"dt": dt, "src": draw(st.sampled_from(["code", "code", "eds"]))}
            if dt in FIXED and draw(st.integers(0, 3)) == 0:
                o["lim"] = draw(st.sampled_from(limit_kinds(dt)))
            objs.append(o)
        cur = [o["dt"] for o in objs]
        steps = []
        for _ in range(draw(st.integers(2, 10))):
            i = draw(st.integers(0, n - 1))
            dt = cur[i]
            k = draw(st.sampled_from(["enc"] * 5 + ["dec"] * 2 + ["len", "type"]))
            if k == "type":
                cur[i] = draw(st.sampled_from(PROP_TYPES * 2 + list(RAWS)))
                steps.append({"k": "type", "o": i, "dt": cur[i]})
            elif k == "len":
                steps.append({"k": "len", "o": i})
            elif dt in RAWS:
                steps.append({"k": "raw", "o": i, "b": draw(st.binary(max_size=9))})
            elif k == "enc":
                steps.append(dict(draw_enc(draw, dt), k="enc", o=i))
            elif dt in TEXTS:
                steps.append({"k": "dec", "o": i, "s": draw(text_of(dt, 12))})
            else:
                m = draw(st.one_of(st.just(rc.width(dt) // 8), st.integers(0, 9)))
                steps.append({"k": "dec", "o": i, "b": draw(st.binary(min_size=m, max_size=m)),
                              "mutable": draw(st.booleans())})
        return {"op": "hist", "objs": objs, "steps": steps}

    if not thorough:
        ctx.hypothesis(rand_case(), 6000)
        ctx.hypothesis(hist_case(), 3000, salt=1)
    else:
        # alternate the two random families so that a time budget cut short on a loaded machine
        # takes from both
        for j in range(4):
            ctx.hypothesis(rand_case(), 12500, salt=2 * j)
            ctx.hypothesis(hist_case(), 3000, salt=2 * j + 1)
