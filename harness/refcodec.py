"""Independent CiA 301 data type codec (does not import canopen).

Integers: int.to_bytes little endian two's complement.
REAL32/64: hand-written IEEE 754 decoder/encoder on exact rationals.
Strings: code-unit arithmetic.
"""
from fractions import Fraction
import math

BOOLEAN = 0x1
INTEGER8, INTEGER16, INTEGER32 = 0x2, 0x3, 0x4
UNSIGNED8, UNSIGNED16, UNSIGNED32 = 0x5, 0x6, 0x7
REAL32 = 0x8
VISIBLE_STRING, OCTET_STRING, UNICODE_STRING = 0x9, 0xA, 0xB
DOMAIN = 0xF
INTEGER24, REAL64, INTEGER40, INTEGER48, INTEGER56, INTEGER64 = 0x10, 0x11, 0x12, 0x13, 0x14, 0x15
UNSIGNED24, UNSIGNED40, UNSIGNED48, UNSIGNED56, UNSIGNED64 = 0x16, 0x18, 0x19, 0x1A, 0x1B

SIGNED = {INTEGER8: 8, INTEGER16: 16, INTEGER24: 24, INTEGER32: 32,
          INTEGER40: 40, INTEGER48: 48, INTEGER56: 56, INTEGER64: 64}
UNSIGNED = {UNSIGNED8: 8, UNSIGNED16: 16, UNSIGNED24: 24, UNSIGNED32: 32,
            UNSIGNED40: 40, UNSIGNED48: 48, UNSIGNED56: 56, UNSIGNED64: 64}
INTEGERS = {**SIGNED, **UNSIGNED}
REALS = {REAL32: 32, REAL64: 64}
NUMERIC = {**INTEGERS, **REALS}
STRINGS = (VISIBLE_STRING, OCTET_STRING, UNICODE_STRING, DOMAIN)
ALL_TYPES = [BOOLEAN] + sorted(NUMERIC) + list(STRINGS)

NAMES = {
    BOOLEAN: "BOOLEAN", INTEGER8: "INTEGER8", INTEGER16: "INTEGER16", INTEGER24: "INTEGER24",
    INTEGER32: "INTEGER32", INTEGER40: "INTEGER40", INTEGER48: "INTEGER48",
    INTEGER56: "INTEGER56", INTEGER64: "INTEGER64", UNSIGNED8: "UNSIGNED8",
    UNSIGNED16: "UNSIGNED16", UNSIGNED24: "UNSIGNED24", UNSIGNED32: "UNSIGNED32",
    UNSIGNED40: "UNSIGNED40", UNSIGNED48: "UNSIGNED48", UNSIGNED56: "UNSIGNED56",
    UNSIGNED64: "UNSIGNED64", REAL32: "REAL32", REAL64: "REAL64",
    VISIBLE_STRING: "VISIBLE_STRING", OCTET_STRING: "OCTET_STRING",
    UNICODE_STRING: "UNICODE_STRING", DOMAIN: "DOMAIN",
}


def width(dt):
    """Bit width of a fixed-size type (BOOLEAN occupies one byte on SDO)."""
    if dt == BOOLEAN:
        return 8
    return NUMERIC[dt]


def int_range(dt):
    if dt in SIGNED:
        w = SIGNED[dt]
        return -(1 << (w - 1)), (1 << (w - 1)) - 1
    w = UNSIGNED[dt]
    return 0, (1 << w) - 1


def is_signed(dt):
    return dt in SIGNED


def enc_int(dt, v):
    w = INTEGERS[dt]
    return int(v).to_bytes(w // 8, "little", signed=dt in SIGNED)


def dec_int(dt, b):
    w = INTEGERS[dt]
    assert len(b) == w // 8
    return int.from_bytes(b, "little", signed=dt in SIGNED)


# ---- IEEE 754, by hand ---------------------------------------------------
_FMT = {32: (8, 23), 64: (11, 52)}


def ieee_decode_bits(bits, w):
    """bits (int) -> ('nan',) | ('inf', sign) | ('num', Fraction, sign)"""
    eb, mb = _FMT[w]
    sign = (bits >> (w - 1)) & 1
    e = (bits >> mb) & ((1 << eb) - 1)
    m = bits & ((1 << mb) - 1)
    bias = (1 << (eb - 1)) - 1
    if e == (1 << eb) - 1:
        if m:
            return ("nan",)
        return ("inf", sign)
    if e == 0:
        val = Fraction(m, 1 << mb) * Fraction(2) ** (1 - bias)
    else:
        val = (1 + Fraction(m, 1 << mb)) * Fraction(2) ** (e - bias)
    return ("num", -val if sign else val, sign)


def float_to_fraction_class(x: float):
    if math.isnan(x):
        return ("nan",)
    if math.isinf(x):
        return ("inf", 1 if x < 0 else 0)
    sign = 1 if math.copysign(1.0, x) < 0 else 0
    return ("num", Fraction(x), sign)


def dec_real(dt, b) -> float:
    """Decode via the hand-written decoder, return a Python float (exact for
    binary32/binary64 values)."""
    w = REALS[dt]
    assert len(b) == w // 8
    bits = int.from_bytes(b, "little")
    d = ieee_decode_bits(bits, w)
    if d[0] == "nan":
        return float("nan")
    if d[0] == "inf":
        return float("-inf") if d[1] else float("inf")
    f = float(d[1])
    if d[1] == 0 and d[2]:
        f = -0.0
    return f


def enc_real(dt, x: float) -> bytes:
    """Encode a float exactly representable in the target format (all
    binary64 floats for REAL64; binary32-representable floats for REAL32)."""
    w = REALS[dt]
    eb, mb = _FMT[w]
    bias = (1 << (eb - 1)) - 1
    if math.isnan(x):
        bits = (((1 << eb) - 1) << mb) | (1 << (mb - 1))
        return bits.to_bytes(w // 8, "little")
    sign = 1 if math.copysign(1.0, x) < 0 else 0
    if math.isinf(x):
        bits = (sign << (w - 1)) | (((1 << eb) - 1) << mb)
        return bits.to_bytes(w // 8, "little")
    fr = abs(Fraction(x))
    if fr == 0:
        return (sign << (w - 1)).to_bytes(w // 8, "little")
    # find exponent
    e = fr.numerator.bit_length() - fr.denominator.bit_length()
    if Fraction(2) ** e > fr:
        e -= 1
    # now 2^e <= fr < 2^(e+1)
    if e < 1 - bias:
        # subnormal
        m = fr / Fraction(2) ** (1 - bias) * (1 << mb)
        assert m.denominator == 1, "value not representable"
        bits = (sign << (w - 1)) | int(m)
    else:
        m = (fr / Fraction(2) ** e - 1) * (1 << mb)
        assert m.denominator == 1, "value not representable"
        assert e + bias < (1 << eb) - 1, "value not representable"
        bits = (sign << (w - 1)) | ((e + bias) << mb) | int(m)
    return bits.to_bytes(w // 8, "little")


def float_bits_equal(a: float, b: float) -> bool:
    if isinstance(a, float) and isinstance(b, float):
        if math.isnan(a) or math.isnan(b):
            return math.isnan(a) and math.isnan(b)
        return a == b and math.copysign(1.0, a) == math.copysign(1.0, b)
    return a == b


# ---- strings ---------------------------------------------------------------
def enc_visible(s: str) -> bytes:
    out = bytearray()
    for ch in s:
        cp = ord(ch)
        assert cp < 128
        out.append(cp)
    return bytes(out)


def enc_unicode(s: str) -> bytes:
    out = bytearray()
    for ch in s:
        cp = ord(ch)
        if cp < 0x10000:
            assert not 0xD800 <= cp <= 0xDFFF
            out += bytes((cp & 0xFF, cp >> 8))
        else:
            cp -= 0x10000
            hi = 0xD800 | (cp >> 10)
            lo = 0xDC00 | (cp & 0x3FF)
            out += bytes((hi & 0xFF, hi >> 8, lo & 0xFF, lo >> 8))
    return bytes(out)


def encode(dt, v) -> bytes:
    """Reference encoding of a typed Python value."""
    if dt == BOOLEAN:
        return b"\x01" if v else b"\x00"
    if dt in INTEGERS:
        return enc_int(dt, v)
    if dt in REALS:
        return enc_real(dt, v)
    if dt == VISIBLE_STRING:
        return enc_visible(v)
    if dt == UNICODE_STRING:
        return enc_unicode(v)
    return bytes(v)


def values_equal(dt, a, b):
    if dt in REALS:
        return float_bits_equal(float(a), float(b))
    if dt == BOOLEAN:
        return bool(a) == bool(b)
    if dt in (OCTET_STRING, DOMAIN):
        return bytes(a) == bytes(b)
    return a == b and type(a) is type(b) or (a == b and dt in INTEGERS)


# ---- CRC-16/XMODEM, bitwise ------------------------------------------------
def crc16_xmodem(data: bytes, crc: int = 0) -> int:
    for byte in data:
        crc ^= byte << 8
        for _ in range(8):
            if crc & 0x8000:
                crc = ((crc << 1) ^ 0x1021) & 0xFFFF
            else:
                crc = (crc << 1) & 0xFFFF
    return crc
