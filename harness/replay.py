"""Re-execute a stored failing case without Hypothesis.

    python -m harness.replay replays/C05/abc.json

Exit 1 + VIOLATION line when the discrepancy is still there, 0 otherwise.
"""
import json
import sys

from harness import core


def main():
    path = sys.argv[1]
    with open(path) as f:
        body = json.load(f)
    core.setup_repo_path()
    mod = core.load_module(body["property"])
    case = core.decode_case(body["case"])
    out = core.guarded_run(mod, case)
    if out.discrepancies:
        for d in out.discrepancies:
            print(f"  {d}")
        print(f"VIOLATION property={body['property']} replay={path}")
        sys.exit(1)
    print(f"replay {path}: no discrepancy on this tree")
    sys.exit(0)


if __name__ == "__main__":
    main()
