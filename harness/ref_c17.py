"""Reference model for C17: which periodic transmissions must be running.

Written from the property text and CiA 301 (no canopen import).  The model is
fed the same op dicts as the code under test and answers, after every op,
which cyclic transmissions have to be on which bus:

    SYNC       (0x80, empty payload, period)
    PDO        (COB-ID, current payload of the map, period)
    heartbeat  (0x700 + node id, [NMT state code], heartbeat time ms / 1000)
    guarding   (0x700 + node id, remote frame, empty, period)

Every entry is either *required* (must be live) or, after the network of
the producer was disconnected, *optional* (SYNC / heartbeat / guarding: the
property only promises that PDO tasks are stopped by disconnect()).

``apply(op)`` returns a Verdict: which exception the call has to raise (if
any), whether the op lies in a class the check keeps out of its domain
(``excluded``), and feature flags for the class histogram.
"""

# CiA 301 NMT: state codes as reported in the heartbeat, command specifiers
STATE_CODE = {"INITIALISING": 0, "STOPPED": 4, "OPERATIONAL": 5, "PRE-OPERATIONAL": 127,
              # CiA 302 / canopen extras, accepted by the documented `state` attribute
              "SLEEP": 80, "STANDBY": 96}
# what the documented state names make the node go to
STATE_AFTER_NAME = {"OPERATIONAL": 5, "STOPPED": 4, "PRE-OPERATIONAL": 127, "SLEEP": 80,
                    "STANDBY": 96, "INITIALISING": 0, "RESET": 0, "RESET COMMUNICATION": 0}
# NMT command specifier on the wire -> state the addressed node enters
STATE_AFTER_CMD = {1: 5, 2: 4, 128: 127, 129: 0, 130: 0, 80: 80, 96: 96}
CMD_OF_NAME = {"OPERATIONAL": 1, "STOPPED": 2, "PRE-OPERATIONAL": 128, "SLEEP": 80, "STANDBY": 96,
               "INITIALISING": 129, "RESET": 129, "RESET COMMUNICATION": 130}

SIGNED_TYPES = {0x2: 8, 0x3: 16, 0x4: 32, 0x15: 64}
UNSIGNED_TYPES = {0x5: 8, 0x6: 16, 0x7: 32, 0x1B: 64}

UNKNOWN = "unknown"   # a period attribute whose value the property does not determine

F1 = ("genuine defect F1: bus without modify_data - the first in-place change of PdoMap.data after "
      "start() is not handed to the bus (the can.Message aliases PdoMap.data)")
X_BOOT = ("NMT command PRE-OPERATIONAL from the bus while the node is INITIALISING: CiA 301 has no such "
          "transition, heartbeat start is unspecified")


def type_width(dt):
    return SIGNED_TYPES.get(dt) or UNSIGNED_TYPES[dt]


def field_range(dt, bits):
    if dt in SIGNED_TYPES:
        return -(1 << (bits - 1)), (1 << (bits - 1)) - 1
    return 0, (1 << bits) - 1


class Verdict:
    def __init__(self):
        self.raises = None        # name of the exception class the call must raise
        self.tolerates = None     # name of an exception class the call may raise
        self.excluded = None
        self.flags = set()


class Expected:
    __slots__ = ("net", "who", "kind", "can_id", "data", "remote", "period", "optional", "alt")

    def __init__(self, net, who, kind, can_id, data, remote, period, optional=False, alt=()):
        self.net, self.who, self.kind = net, who, kind
        self.alt = tuple(alt)      # other CAN ids that are acceptable too (see Model._sync_cob)
        self.can_id, self.data, self.remote, self.period = can_id, bytes(data), remote, period
        self.optional = optional

    def __repr__(self):
        return (f"{self.who}@{self.net}: {'R' if self.remote else ''}{self.can_id:X}#{self.data.hex()} "
                f"every {self.period!r}s{' (optional)' if self.optional else ''}")


def valid_period(p):
    return p is not None and p is not UNKNOWN and p != 0


class PdoModel:
    def __init__(self, net, who, spec):
        self.net, self.who = net, who
        self.cob = spec["cob"]
        self.layout = []
        off = 0
        for e in spec["entries"]:
            self.layout.append((off, e["bits"], e["dt"]))
            off += e["bits"]
        self.nbits = off
        self.data = bytes((off + 7) // 8)
        self.sent = None          # payload last handed to the running task (start / data-update calls)
        self.period = None
        self.running = None       # period of the live task
        self.fresh = False        # no update() since the task was started
        # "en": is the map marked valid/enabled?  True (default when the key is missing), False, or "default"
        # (set up by hand, attribute never touched).  Only a map marked enabled registers for reception;
        # start / stop / data updates do not depend on it (the property names no such condition).
        self.enabled = spec.get("en", True) is True
        self.subscribed = (spec["setup"] == "from_od" or bool(spec.get("sub"))) and self.enabled
        self.last_ts = None

    def write(self, k, v):
        off, bits, dt = self.layout[k]
        lo, hi = field_range(dt, bits)
        assert lo <= v <= hi, "generator error: value outside the mapped field"
        frame = int.from_bytes(self.data, "little")
        mask = (1 << bits) - 1
        frame = (frame & ~(mask << off)) | ((v & mask) << off)
        self.data = frame.to_bytes(len(self.data), "little")


class Model:
    def __init__(self, cfg):
        self.mod = cfg["mod"]
        self.connected = {"M": True, "S": True}
        self.sync = {n: {"period": None, "running": None, "optional": False, "cob": 0x80, "run_cob": 0x80,
                         "alt": (), "seen": {0x80}} for n in ("M", "S")}
        self.pdo = {}
        self.hb = {}
        self.guard = {}
        for n in cfg["nodes"]:
            nid = n["id"]
            self.hb[nid] = {"state": 0, "obj": n["hb"], "running": None, "optional": False}
            self.guard[nid] = {"running": None, "optional": False}
            for m in n.get("tpdo", []):
                self.pdo[("L", nid, m["no"])] = PdoModel("S", f"node{nid}.tpdo[{m['no']}]", m)
            for m in n.get("rpdo", []):
                self.pdo[("R", nid, m["no"])] = PdoModel("M", f"node{nid}.rpdo[{m['no']}]", m)
            if cfg.get("both_directions"):
                # the other direction of each node object can be started too (PdoMap.start has no
                # direction check): "r" = TPDO maps of the RemoteNode, "l" = RPDO maps of the LocalNode
                for m in n.get("tpdo", []):
                    self.pdo[("r", nid, m["no"])] = PdoModel("M", f"remote node{nid}.tpdo[{m['no']}]", m)
                for m in n.get("rpdo", []):
                    self.pdo[("l", nid, m["no"])] = PdoModel("S", f"local node{nid}.rpdo[{m['no']}]", m)

    # ---- what must be on the bus now ------------------------------------
    def expected(self):
        out = []
        for net, s in self.sync.items():
            if s["running"] is not None:
                out.append(Expected(net, "sync", "sync", s["run_cob"], b"", False, s["running"], s["optional"],
                                    s["alt"]))
        for key, p in self.pdo.items():
            if p.running is not None:
                out.append(Expected(p.net, p.who, "pdo", p.cob, p.data if p.sent is None else p.sent, False,
                                    p.running))
        for nid, h in self.hb.items():
            if h["running"] is not None:
                out.append(Expected("S", f"node{nid}.heartbeat", "heartbeat", 0x700 + nid,
                                    bytes([h["state"]]), False, h["running"] / 1000, h["optional"]))
        for nid, g in self.guard.items():
            if g["running"] is not None:
                out.append(Expected("M", f"node{nid}.guarding", "guarding", 0x700 + nid, b"", True,
                                    g["running"], g["optional"]))
        return out

    def who(self, net, can_id, remote):
        """Name and kind of the producer owning (net, id, remote flag)."""
        if not remote and net in self.sync and can_id in self.sync[net]["seen"]:
            return "sync", "sync"
        for p in self.pdo.values():
            if p.net == net and p.cob == can_id and not remote:
                return p.who, "pdo"
        if 0x701 <= can_id <= 0x77F:
            nid = can_id - 0x700
            if net == "S" and not remote and nid in self.hb:
                return f"node{nid}.heartbeat", "heartbeat"
            if net == "M" and remote and nid in self.guard:
                return f"node{nid}.guarding", "guarding"
        return f"nobody({net},{can_id:X})", "unknown"

    # ---- ops -------------------------------------------------------------
    def apply(self, op):
        v = Verdict()
        getattr(self, "_" + op["op"])(op, v)
        return v

    def _need(self, net, v, what):
        if not self.connected[net]:
            v.excluded = f"{what} after disconnect() of the network (not a documented use)"
            return False
        return True

    # SYNC
    def _sync_start(self, op, v):
        s = self.sync[op["net"]]
        if not self._need(op["net"], v, "sync.start"):
            return
        p = op.get("p")
        if p is None:
            if s["period"] is UNKNOWN:
                v.excluded = "start() after a rejected start(0): period attribute not determined by the property"
                return
            if not valid_period(s["period"]):
                v.raises = "ValueError"
                v.flags.add("E")
                return
            p = s["period"]
        elif p == 0:
            if s["running"] is not None:
                v.excluded = "start(0) while running: whether the running task survives the rejected call is not stated"
                return
            v.raises = "ValueError"
            v.flags.add("E")
            s["period"] = UNKNOWN
            return
        if s["running"] is not None:
            v.flags.add("R")
        s["period"] = p
        s["running"] = p
        s["run_cob"], s["alt"] = s["cob"], ()

    def _sync_cob(self, op, v):
        """sync.cob_id = x.  A later start() must use it; whether a task that is running already follows at
        once is not stated, so until the next start()/stop() the running task may carry the id it was started
        with or the new one."""
        s = self.sync[op["net"]]
        s["cob"] = op["cob"]
        s["seen"].add(op["cob"])
        if s["running"] is not None:
            s["alt"] = tuple(sorted(set(s["alt"]) | {op["cob"]}))
            v.flags.add("C")

    def _sync_stop(self, op, v):
        s = self.sync[op["net"]]
        s["running"] = None
        s["optional"] = False

    # PDO
    def _map(self, op):
        return self.pdo[(op["side"], op["node"], op["map"])]

    def _pdo_start(self, op, v):
        m = self._map(op)
        if not self._need(m.net, v, "PdoMap.start"):
            return
        p = op.get("p")
        if p is None:
            if m.period is UNKNOWN:
                v.excluded = "start() after a rejected start(0): period attribute not determined by the property"
                return
            if not valid_period(m.period):
                if m.running is not None:
                    v.excluded = "start() without period while running"
                    return
                v.raises = "ValueError"
                v.flags.add("E")
                return
            p = m.period
        elif p == 0:
            if m.running is not None:
                v.excluded = "start(0) while running: whether the running task survives the rejected call is not stated"
                return
            v.raises = "ValueError"
            v.flags.add("E")
            m.period = UNKNOWN
            return
        if m.running is not None:
            v.flags.add("R")
        if not m.enabled:
            v.flags.add("N")
        m.period = p
        m.running = p
        m.fresh = True
        m.sent = m.data

    def _pdo_stop(self, op, v):
        m = self._map(op)
        m.running = None

    def _pdo_stop_all(self, op, v):
        for (side, nid, no), m in self.pdo.items():
            if nid == op["node"] and (side == op["side"] or
                                      (op.get("which") == "pdo" and side.upper() == op["side"])):
                m.running = None

    def _pdo_enabled(self, op, v):
        """PdoMap.enabled = x while the map is stopped.  The attribute takes no part in start / stop / update;
        what it means for reception is not stated, so reception is no longer generated for this map."""
        m = self._map(op)
        if m.running is not None:
            v.excluded = "PdoMap.enabled assigned while transmitting: effect on the running task is not stated"
            return
        m.enabled = bool(op["v"])
        m.subscribed = False

    def _pdo_period(self, op, v):
        m = self._map(op)
        if m.running is not None:
            v.excluded = "PdoMap.period assigned while transmitting: effect on the running task is not stated"
            return
        m.period = op["p"]

    def _inplace_guard(self, m, new, v):
        """Finding F1 (see module docstring of c17) was repaired in /repo (commit c0c2503,
        PdoMap.start hands a copy of its data to the task): the class is no longer kept out
        of the domain, it is generated and judged like every other case."""
        return True
        if m.running is not None and not self.mod and m.fresh and new != m.data:
            v.excluded = F1
            return False
        return True

    def _pdo_write(self, op, v):
        m = self._map(op)
        old = m.data
        m.write(op["var"], op["v"])
        new, m.data = m.data, old
        if not self._inplace_guard(m, new, v):
            return
        m.data = new
        if m.running is not None:
            v.flags.add("U")
            m.fresh = False
            m.sent = m.data

    def _pdo_assign(self, op, v):
        m = self._map(op)
        new = bytes(op["data"])
        assert len(new) == len(m.data), "generator error: payload length"
        if not op.get("rebind") and not self._inplace_guard(m, new, v):
            return
        m.data = new
        if m.running is not None:
            v.flags.add("U")
            m.fresh = False
            m.sent = m.data

    def _pdo_update(self, op, v):
        m = self._map(op)
        if m.running is not None:
            m.fresh = False
            m.sent = m.data

    def _pdo_poke(self, op, v):
        """PdoMap.data changed in place without a data-update call: the map holds the new bytes, the
        running task keeps sending what it was given last - until the next update call."""
        m = self._map(op)
        new = bytes(op["data"])
        assert len(new) == len(m.data), "generator error: payload length"
        m.data = new

    def _pdo_rx(self, op, v):
        m = self._map(op)
        if not self.connected[m.net] or not m.subscribed:
            return
        if m.running is not None:
            return                      # a transmitting map ignores what it hears
        assert len(op["data"]) == len(m.data)
        m.data = bytes(op["data"])
        if m.last_ts is not None:
            m.period = op["ts"] - m.last_ts
        m.last_ts = op["ts"]

    # NMT / heartbeat
    def _set_state(self, nid, new, local_api, v):
        h = self.hb[nid]
        old = h["state"]
        h["state"] = new
        if h["running"] is not None and new != old:
            v.flags.add("U")
        if local_api and old == 0 and new == 127:
            # boot: heartbeat producer (re)configured from object 0x1017
            if h["running"] is not None:
                v.flags.add("R" if h["obj"] else "Z")
            h["running"] = h["obj"] if h["obj"] > 0 else None
            h["optional"] = False

    def _l_state(self, op, v):
        if not self._need("S", v, "nmt.state assignment"):
            return
        self._set_state(op["node"], STATE_AFTER_NAME[op["state"]], True, v)

    def _l_cmd(self, op, v):
        if not self._need("S", v, "nmt.send_command"):
            return
        if op["code"] in STATE_AFTER_CMD:
            self._set_state(op["node"], STATE_AFTER_CMD[op["code"]], True, v)

    def _bus(self, cmd, nid, v):
        if not self.connected["S"]:
            return                      # a disconnected network hears nothing
        if cmd not in STATE_AFTER_CMD:
            return
        new = STATE_AFTER_CMD[cmd]
        targets = [i for i in self.hb if nid in (0, i)]
        if new == 127 and any(self.hb[i]["state"] == 0 for i in targets):
            v.excluded = X_BOOT
            return
        for i in targets:
            self._set_state(i, new, False, v)

    def _m_state(self, op, v):
        if not self._need("M", v, "master nmt.state assignment"):
            return
        self._bus(CMD_OF_NAME[op["state"]], op["node"], v)

    def _bus_cmd(self, op, v):
        self._bus(op["cmd"], op["nid"], v)

    def _hb_start(self, op, v):
        h = self.hb[op["node"]]
        if op["ms"] > 0 and not self._need("S", v, "start_heartbeat"):
            return
        if h["running"] is not None:
            v.flags.add("R" if op["ms"] else "Z")
        h["running"] = op["ms"] if op["ms"] > 0 else None
        h["optional"] = False

    def _hb_stop(self, op, v):
        h = self.hb[op["node"]]
        h["running"] = None
        h["optional"] = False

    def _hb_write(self, op, v):
        h = self.hb[op["node"]]
        if op["via"] == "remote" and not (self.connected["M"] and self.connected["S"]):
            v.excluded = "SDO transfer over a disconnected network"
            return
        if op["v"] > 0 and not self._need("S", v, "write of a non-zero heartbeat time"):
            return
        if h["running"] is not None:
            v.flags.add("R" if op["v"] else "Z")
        h["obj"] = op["v"]
        h["running"] = op["v"] if op["v"] > 0 else None
        h["optional"] = False

    def _hb_refused(self, op, v):
        if op["via"] == "remote" and not (self.connected["M"] and self.connected["S"]):
            v.excluded = "SDO transfer over a disconnected network"
            return
        v.tolerates = "SdoAbortedError"

    def _od_write(self, op, v):
        if op["via"] == "remote" and not (self.connected["M"] and self.connected["S"]):
            v.excluded = "SDO transfer over a disconnected network"

    # guarding
    def _g_start(self, op, v):
        g = self.guard[op["node"]]
        if not self._need("M", v, "start_node_guarding"):
            return
        if g["running"] is not None:
            v.flags.add("R")
        g["running"] = op["p"]
        g["optional"] = False

    def _g_stop(self, op, v):
        g = self.guard[op["node"]]
        g["running"] = None
        g["optional"] = False

    # shutdown
    def _disconnect(self, op, v):
        net = op["net"]
        self.connected[net] = False
        side = "R" if net == "M" else "L"
        live = False
        for (s, nid, no), m in self.pdo.items():
            if s.upper() == side:
                live |= m.running is not None
                m.running = None
        if live:
            v.flags.add("D")
        if op.get("route", "call") != "call":
            v.flags.add("X")      # left through the context manager protocol of Network
        # the property promises nothing about the other producers of that network
        if self.sync[net]["running"] is not None:
            self.sync[net]["optional"] = True
        if net == "S":
            for h in self.hb.values():
                if h["running"] is not None:
                    h["optional"] = True
        else:
            for g in self.guard.values():
                if g["running"] is not None:
                    g["optional"] = True
