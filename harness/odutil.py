"""Build canopen ObjectDictionary objects from plain JSON-able specs.

spec = list of objects:
  {"kind": "var", "index": i, "name": s, "dt": t, "access": a, ...}
  {"kind": "record"|"array", "index": i, "name": s, "members": [{"sub": k, "name": s, "dt": t, ...}]}
optional per variable: default, value, min, max, factor, unit, description,
pdo (bool), storage, value_descriptions {int: str}, bit_definitions {name: [bits]}
"""


def build_var(spec, index, sub=0):
    from canopen.objectdictionary import ODVariable
    v = ODVariable(spec["name"], index, sub)
    v.data_type = spec["dt"]
    v.access_type = spec.get("access", "rw")
    for k_spec, k_attr in (("default", "default"), ("value", "value"), ("min", "min"),
                           ("max", "max"), ("unit", "unit"), ("description", "description"),
                           ("storage", "storage_location")):
        if spec.get(k_spec) is not None:
            setattr(v, k_attr, spec[k_spec])
    if spec.get("factor") is not None:
        v.factor = spec["factor"]
    if spec.get("pdo"):
        v.pdo_mappable = True
    for val, text in (spec.get("value_descriptions") or {}).items():
        v.add_value_description(int(val), text)
    for name, bits in (spec.get("bit_definitions") or {}).items():
        v.add_bit_definition(name, list(bits))
    return v


def build_od(spec, node_id=None):
    from canopen.objectdictionary import ObjectDictionary, ODArray, ODRecord
    od = ObjectDictionary()
    od.node_id = node_id
    for o in spec:
        if o["kind"] == "var":
            od.add_object(build_var(o, o["index"]))
        else:
            cls = ODRecord if o["kind"] == "record" else ODArray
            obj = cls(o["name"], o["index"])
            if o.get("storage") is not None:
                obj.storage_location = o["storage"]
            for m in o["members"]:
                obj.add_member(build_var(m, o["index"], m["sub"]))
            od.add_object(obj)
    return od


def entries(spec):
    """Flat list of (index, sub, varspec, parent_kind) for every variable in spec."""
    out = []
    for o in spec:
        if o["kind"] == "var":
            out.append((o["index"], 0, o, "var"))
        else:
            for m in o["members"]:
                out.append((o["index"], m["sub"], m, o["kind"]))
    return out
