"""Reference SDO peers written from CiA 301 (no canopen imports).

RefSdoServer  strict validator + store; expedited, segmented, block download,
              block upload.  Every illegal client frame is recorded in
              ``errors`` (and answered with an abort).
RefSdoClient  frame-level client that drives an SDO server and validates every
              response frame.
"""
from __future__ import annotations

import struct

from harness.refcodec import crc16_xmodem


class ProtoError:
    def __init__(self, kind, detail, frame=None):
        self.kind = kind
        self.detail = detail
        self.frame = bytes(frame) if frame is not None else None

    def __repr__(self):
        f = f" frame={self.frame.hex()}" if self.frame is not None else ""
        return f"{self.kind}: {self.detail}{f}"


def _zero(b):
    return not any(b)


class RefSdoServer:
    IDLE, DL_SEG, UL_SEG, BDL_SUB, BDL_END, BUL_START, BUL_ACK, BUL_END = range(8)

    def __init__(self, rx_id=0x602, tx_id=0x582):
        self.rx_id = rx_id
        self.tx_id = tx_id
        self.port = None
        self.store = {}            # (index, sub) -> bytes
        self.errors = []           # ProtoError: illegal client frames
        self.commits = []          # (index, sub, bytes) completed downloads
        self.client_aborts = []    # abort codes received
        self.requests = []         # every client frame seen (bytes)
        self.responses = []        # every frame sent
        self.uploads_served = []   # (index, sub, style)
        # behaviour knobs
        self.upload_style = None   # callable(index, sub, data) -> style or None = default
        self.ul_chunks = None      # list of 1..7: data bytes per upload segment (cycled); None = 7 each.
        #                            CiA 301 lets a server fill any segment with fewer than 7 bytes (field n)
        self.ul_seg_no = 0
        self.write_hook = None     # callable(index, sub, data) -> abort code | None
        self.read_hook = None      # callable(index, sub) -> bytes | int abort code | None(=store)
        self.crc_support = True
        self.blksizes = [127]      # block sizes offered for successive sub-blocks
        self._blk_i = 0
        self.block_size_indicated = True   # block upload: announce size
        self.block_upload_supported = True
        self.block_download_supported = True
        self.state = self.IDLE
        self._reset()

    # ------------------------------------------------------------------
    def _reset(self):
        self.state = self.IDLE
        self.mux = None
        self.buf = bytearray()
        self.declared = None
        self.toggle = 0
        self.data = b""
        self.pos = 0

    def attach(self, hub, name="refserver"):
        self.port = hub.port(name, handler=self._on_frame)
        return self.port

    def _on_frame(self, fr):
        if fr.can_id != self.rx_id or fr.remote:
            return
        for r in self.handle(fr.data):
            self._emit(r)

    def _emit(self, data):
        from harness.simbus import Frame
        self.responses.append(bytes(data))
        fr = Frame(self.tx_id, bytes(data), ts=self.port.hub.now(), src=self.port)
        self.port.sent.append(fr)
        self.port.hub.route(fr)

    def _err(self, kind, detail, frame, code=0x05040001):
        self.errors.append(ProtoError(kind, detail, frame))
        return self._abort(code)

    def _abort(self, code, mux=None):
        mux = mux or self.mux or (0, 0)
        self._reset()
        return [struct.pack("<BHBL", 0x80, mux[0], mux[1], code)]

    def _next_blksize(self):
        b = self.blksizes[self._blk_i % len(self.blksizes)]
        self._blk_i += 1
        return b

    # ------------------------------------------------------------------
    def handle(self, d: bytes):
        d = bytes(d)
        self.requests.append(d)
        if len(d) != 8:
            return self._err("dlc", f"request has {len(d)} bytes, must be 8", d)
        if self.state == self.BDL_SUB:
            return self._bdl_segment(d)
        cmd = d[0]
        ccs = cmd >> 5
        if ccs == 4:
            code = struct.unpack_from("<L", d, 4)[0]
            self.client_aborts.append(code)
            self._reset()
            return []
        if ccs == 1:
            return self._init_download(d)
        if ccs == 0:
            return self._seg_download(d)
        if ccs == 2:
            return self._init_upload(d)
        if ccs == 3:
            return self._seg_upload(d)
        if ccs == 6:
            return self._block_download(d)
        if ccs == 5:
            return self._block_upload(d)
        return self._err("ccs", f"unknown command specifier {ccs}", d)

    # ---- download -----------------------------------------------------
    def _write(self, mux, data):
        if self.write_hook is not None:
            code = self.write_hook(mux[0], mux[1], bytes(data))
            if code:
                return code
        self.store[mux] = bytes(data)
        self.commits.append((mux[0], mux[1], bytes(data)))
        return None

    def _init_download(self, d):
        if self.state != self.IDLE:
            # a new initiate while a transfer is in progress is a client bug
            self.errors.append(ProtoError("restart", "initiate download while a transfer is in progress", d))
            self._reset()
        cmd = d[0]
        index, sub = struct.unpack_from("<HB", d, 1)
        mux = (index, sub)
        e, s, n = (cmd >> 1) & 1, cmd & 1, (cmd >> 2) & 3
        if cmd & 0x10:
            return self._err("reserved", "reserved bit 4 set in initiate download", d)
        if e:
            if s:
                size = 4 - n
            else:
                if n:
                    return self._err("n", "n must be 0 when size is not indicated", d)
                size = 4
            if not _zero(d[4 + size:8]):
                return self._err("padding", "bytes after expedited data are not zero", d)
            self.mux = mux
            code = self._write(mux, d[4:4 + size])
            if code:
                return self._abort(code, mux)
            self._reset()
            return [struct.pack("<BHB4x", 0x60, index, sub)]
        if n:
            return self._err("n", "n must be 0 in a non-expedited initiate", d)
        if s:
            self.declared = struct.unpack_from("<L", d, 4)[0]
        else:
            self.declared = None
            if not _zero(d[4:8]):
                return self._err("reserved", "size field must be zero when s=0", d)
        self.mux = mux
        self.buf = bytearray()
        self.toggle = 0
        self.state = self.DL_SEG
        return [struct.pack("<BHB4x", 0x60, index, sub)]

    def _seg_download(self, d):
        cmd = d[0]
        if self.state != self.DL_SEG:
            return self._err("sequence", "download segment without a download in progress "
                             "(e.g. after the last segment)", d)
        t, n, c = (cmd >> 4) & 1, (cmd >> 1) & 7, cmd & 1
        if t != self.toggle:
            return self._err("toggle", f"toggle {t}, expected {self.toggle}", d, 0x05030000)
        ln = 7 - n
        if not _zero(d[1 + ln:8]):
            return self._err("padding", "unused segment bytes are not zero", d)
        self.buf += d[1:1 + ln]
        if self.declared is not None and len(self.buf) > self.declared:
            return self._err("size", f"received {len(self.buf)} bytes, declared {self.declared}", d,
                             0x06070012)
        resp = [bytes([0x20 | (t << 4)]) + bytes(7)]
        self.toggle ^= 1
        if c:
            if self.declared is not None and len(self.buf) != self.declared:
                return self._err("size", f"last segment after {len(self.buf)} bytes, declared "
                                 f"{self.declared}", d, 0x06070013)
            mux = self.mux
            code = self._write(mux, self.buf)
            if code:
                return self._abort(code, mux)
            self._reset()
        return resp

    # ---- upload ---------------------------------------------------------
    def _read(self, mux):
        if self.read_hook is not None:
            r = self.read_hook(mux[0], mux[1])
            if r is not None:
                return r
        if mux in self.store:
            return self.store[mux]
        return 0x06020000

    def _style_for(self, mux, data):
        style = None
        if self.upload_style is not None:
            style = self.upload_style(mux[0], mux[1], data)
        n = len(data)
        allowed = ["seg_size", "seg_nosize"]
        if 1 <= n <= 4:
            allowed.append("exp_size")
        if n == 4:
            allowed.append("exp_nosize")
        if style not in allowed:
            style = "exp_size" if 1 <= n <= 4 else "seg_size"
        return style

    def _init_upload(self, d, from_block=False):
        if self.state != self.IDLE:
            self.errors.append(ProtoError("restart", "initiate upload while a transfer is in progress", d))
            self._reset()
        cmd = d[0]
        index, sub = struct.unpack_from("<HB", d, 1)
        mux = (index, sub)
        if not from_block:
            if cmd & 0x1F:
                return self._err("reserved", "reserved bits set in initiate upload", d)
            if not _zero(d[4:8]):
                return self._err("reserved", "reserved bytes of initiate upload are not zero", d)
        data = self._read(mux)
        if isinstance(data, int):
            return self._abort(data, mux)
        style = self._style_for(mux, data)
        self.uploads_served.append((index, sub, style))
        n = len(data)
        if style == "exp_size":
            return [struct.pack("<BHB", 0x43 | ((4 - n) << 2), index, sub) + data.ljust(4, b"\0")]
        if style == "exp_nosize":
            return [struct.pack("<BHB", 0x42, index, sub) + data]
        self.mux = mux
        self.data = bytes(data)
        self.pos = 0
        self.toggle = 0
        self.ul_seg_no = 0
        self.state = self.UL_SEG
        if style == "seg_size":
            return [struct.pack("<BHBL", 0x41, index, sub, n)]
        return [struct.pack("<BHB4x", 0x40, index, sub)]

    def _seg_upload(self, d):
        cmd = d[0]
        if self.state != self.UL_SEG:
            return self._err("sequence", "upload segment request without an upload in progress", d)
        if cmd & 0x0F:
            return self._err("reserved", "reserved bits set in upload segment request", d)
        if not _zero(d[1:8]):
            return self._err("reserved", "reserved bytes of upload segment request are not zero", d)
        t = (cmd >> 4) & 1
        if t != self.toggle:
            return self._err("toggle", f"toggle {t}, expected {self.toggle}", d, 0x05030000)
        size = 7
        if self.ul_chunks:
            size = max(1, min(7, self.ul_chunks[self.ul_seg_no % len(self.ul_chunks)]))
        self.ul_seg_no += 1
        chunk = self.data[self.pos:self.pos + size]
        self.pos += len(chunk)
        last = self.pos >= len(self.data)
        resp = bytes([(t << 4) | ((7 - len(chunk)) << 1) | (1 if last else 0)]) + chunk.ljust(7, b"\0")
        self.toggle ^= 1
        if last:
            self._reset()
        return [resp]

    # ---- block download -------------------------------------------------
    def _block_download(self, d):
        cmd = d[0]
        cs = cmd & 1
        if cs == 0:
            if self.state != self.IDLE:
                self.errors.append(ProtoError("restart", "block download initiate during a transfer", d))
                self._reset()
            if not self.block_download_supported:
                index, sub = struct.unpack_from("<HB", d, 1)
                return self._abort(0x05040001, (index, sub))
            if cmd & 0x18:
                return self._err("reserved", "reserved bits set in block download initiate", d)
            index, sub = struct.unpack_from("<HB", d, 1)
            cc, s = (cmd >> 2) & 1, (cmd >> 1) & 1
            if s:
                self.declared = struct.unpack_from("<L", d, 4)[0]
            else:
                self.declared = None
                if not _zero(d[4:8]):
                    return self._err("reserved", "size must be zero when s=0", d)
            self.mux = (index, sub)
            self.crc = bool(cc and self.crc_support)
            self.buf = bytearray()
            self.segs = []           # accepted segments of the current sub-block
            self.blk = self._next_blksize()
            self.seq = 0
            self.saw_last = False
            self.out_of_seq = False
            self.state = self.BDL_SUB
            return [struct.pack("<BHBB3x", 0xA0 | (0x04 if self.crc_support else 0), index, sub, self.blk)]
        # end block download
        if self.state != self.BDL_END:
            return self._err("sequence", "block download end without all data acknowledged", d)
        if cmd & 0x02:
            return self._err("reserved", "reserved bit set in block download end", d)
        n = (cmd >> 2) & 7
        crc = struct.unpack_from("<H", d, 1)[0]
        if not _zero(d[3:8]):
            return self._err("reserved", "reserved bytes of block download end are not zero", d)
        if n > 6 and self.buf:
            return self._err("n", f"n={n}: a last segment carries at least one byte", d)
        if n:
            if len(self.buf) < n:
                return self._err("n", "n larger than data received", d)
            if not _zero(self.buf[len(self.buf) - n:]):
                return self._err("padding", "unused bytes of the last block segment are not zero", d)
            del self.buf[len(self.buf) - n:]
        if self.declared is not None and len(self.buf) != self.declared:
            return self._err("size", f"received {len(self.buf)} bytes, declared {self.declared}", d,
                             0x06070010)
        if self.crc:
            want = crc16_xmodem(bytes(self.buf))
            if crc != want:
                return self._err("crc", f"CRC {crc:04x}, computed {want:04x}", d, 0x05040004)
        elif crc:
            return self._err("crc", "CRC field must be zero when CRC was not negotiated", d)
        mux = self.mux
        code = self._write(mux, self.buf)
        if code:
            return self._abort(code, mux)
        self._reset()
        return [b"\xA1" + bytes(7)]

    def _bdl_segment(self, d):
        cmd = d[0]
        if cmd == 0x80:
            self.client_aborts.append(struct.unpack_from("<L", d, 4)[0])
            self._reset()
            return []
        c, seq = cmd >> 7, cmd & 0x7F
        if seq == 0 or seq > self.blk:
            return self._err("seqno", f"sequence number {seq} outside 1..{self.blk}", d, 0x05040003)
        if seq == self.seq + 1 and not self.out_of_seq:
            if self.saw_last:
                return self._err("last", "segment after the segment flagged as last", d)
            self.seq = seq
            self.segs.append(d[1:8])
            if c:
                self.saw_last = True
        else:
            # a gap: everything from here is discarded until the sub-block ends
            self.out_of_seq = True
            self.gap_seen = True
        if seq == self.blk or c:
            return self._bdl_ack()
        return []

    def _bdl_ack(self):
        """Acknowledge the sub-block with what arrived in sequence."""
        ack = self.seq
        for s in self.segs:
            self.buf += s
        last_done = self.saw_last
        self.segs = []
        self.seq = 0
        self.out_of_seq = False
        self.blk = self._next_blksize()
        if last_done:
            self.state = self.BDL_END
        return [bytes([0xA2, ack, self.blk]) + bytes(5)]

    def lost_client_frame(self, d):
        """Called by the fault injector when it dropped a client frame: a real
        server would time out waiting for the rest of the sub-block; emulate
        that time-out immediately when the lost frame was the one that ends
        the sub-block."""
        if self.state == self.BDL_SUB and len(d) == 8 and d[0] != 0x80:
            c, seq = d[0] >> 7, d[0] & 0x7F
            self.out_of_seq = True
            if seq == self.blk or c:
                for r in self._bdl_ack():
                    self._emit(r)

    # ---- block upload -----------------------------------------------------
    def _block_upload(self, d):
        cmd = d[0]
        cs = cmd & 3
        if cs == 0:
            if self.state != self.IDLE:
                self.errors.append(ProtoError("restart", "block upload initiate during a transfer", d))
                self._reset()
            if cmd & 0x18:
                return self._err("reserved", "reserved bits set in block upload initiate", d)
            index, sub = struct.unpack_from("<HB", d, 1)
            blk, pst = d[4], d[5]
            if not 1 <= blk <= 127:
                return self._err("blksize", f"block size {blk} outside 1..127", d, 0x05040002)
            if not _zero(d[6:8]):
                return self._err("reserved", "reserved bytes of block upload initiate not zero", d)
            if not self.block_upload_supported:
                return self._init_upload(d, from_block=True)
            mux = (index, sub)
            data = self._read(mux)
            if isinstance(data, int):
                return self._abort(data, mux)
            self.mux = mux
            self.data = bytes(data)
            self.crc = bool(((cmd >> 2) & 1) and self.crc_support)
            self.blk = blk
            self.pos = 0             # first byte of the current sub-block
            self.state = self.BUL_START
            flags = (0x04 if self.crc_support else 0) | (0x02 if self.block_size_indicated else 0)
            size = len(self.data) if self.block_size_indicated else 0
            self.uploads_served.append((index, sub, "block"))
            return [struct.pack("<BHBL", 0xC0 | flags, index, sub, size)]
        if cs == 3:
            if self.state != self.BUL_START:
                return self._err("sequence", "block upload start without initiate", d)
            if cmd & 0x1C or not _zero(d[1:8]):
                return self._err("reserved", "reserved bits/bytes set in block upload start", d)
            return self._bul_send()
        if cs == 2:
            if self.state != self.BUL_ACK:
                return self._err("sequence", "block upload acknowledge without a sub-block sent", d)
            if cmd & 0x1C or not _zero(d[3:8]):
                return self._err("reserved", "reserved bits/bytes set in block upload acknowledge", d)
            ack, blk = d[1], d[2]
            if ack > self.sent:
                return self._err("ackseq", f"ackseq {ack} but only {self.sent} segments were sent", d)
            if not 1 <= blk <= 127:
                return self._err("blksize", f"block size {blk} outside 1..127", d, 0x05040002)
            self.acks.append((ack, self.sent))
            self.pos += 7 * ack
            self.blk = blk
            if self.pos >= len(self.data) and ack == self.sent:
                n = (7 - len(self.data) % 7) % 7 if self.data else 7
                self.state = self.BUL_END
                crc = crc16_xmodem(self.data) if self.crc else 0
                if self.corrupt_crc:
                    crc ^= self.corrupt_crc
                return [struct.pack("<BH5x", 0xC1 | (n << 2), crc)]
            return self._bul_send()
        # cs == 1: end
        if self.state != self.BUL_END:
            return self._err("sequence", "block upload end without the end response", d)
        if cmd & 0x1C or not _zero(d[1:8]):
            return self._err("reserved", "reserved bits/bytes set in block upload end", d)
        self.completed_block_uploads += 1
        self._reset()
        return []

    acks = None
    sent = 0
    corrupt_crc = 0
    completed_block_uploads = 0
    gap_seen = False

    def _bul_send(self):
        if self.acks is None:
            self.acks = []
        out = []
        p = self.pos
        n = 0
        if not self.data:
            # empty value: one empty last segment
            out.append(bytes([0x80 | 1]) + bytes(7))
            n = 1
        else:
            while n < self.blk and p < len(self.data):
                chunk = self.data[p:p + 7]
                p += 7
                n += 1
                last = p >= len(self.data)
                out.append(bytes([(0x80 if last else 0) | n]) + chunk.ljust(7, b"\0"))
        self.sent = n
        self.state = self.BUL_ACK
        return out


# ===========================================================================
class RefSdoClient:
    """Frame-level CiA 301 client used to drive an SDO *server* under test.

    ``send(frame) -> list[bytes]`` must deliver one request frame and return
    the frames the server emitted in response (the harness wires it to the
    simulated bus).  Every response is validated; findings go to ``errors``.
    """

    def __init__(self, send):
        self._send = send
        self.errors = []
        self.trace = []     # (request, [responses])

    def _err(self, kind, detail, frame=None):
        self.errors.append(ProtoError(kind, detail, frame))

    def xfer(self, req: bytes):
        """Send one frame, demand exactly one well-formed 8-byte response."""
        resp = self._send(bytes(req))
        self.trace.append((bytes(req), [bytes(r) for r in resp]))
        if len(resp) != 1:
            self._err("count", f"{len(resp)} response frames to request {bytes(req).hex()}")
            return resp[0] if resp else None
        r = bytes(resp[0])
        if len(r) != 8:
            self._err("dlc", f"response has {len(r)} bytes", r)
        return r

    @staticmethod
    def is_abort(r):
        return r is not None and len(r) == 8 and r[0] == 0x80

    @staticmethod
    def abort_fields(r):
        index, sub, code = struct.unpack_from("<HBL", r, 1)
        return index, sub, code

    # ---- upload -------------------------------------------------------------
    def upload(self, index, sub):
        """Returns ('ok', data) | ('abort', (index, sub, code)) | ('error', None)"""
        r = self.xfer(struct.pack("<BHB4x", 0x40, index, sub))
        if r is None or len(r) != 8:
            return ("error", None)
        if self.is_abort(r):
            return ("abort", self.abort_fields(r))
        cmd = r[0]
        if cmd >> 5 != 2:
            self._err("scs", f"initiate upload response scs {cmd >> 5}", r)
            return ("error", None)
        if struct.unpack_from("<HB", r, 1) != (index, sub):
            self._err("mux", f"response for {r[1:4].hex()} to request for {index:04x}:{sub:02x}", r)
        if cmd & 0x10:
            self._err("reserved", "reserved bit 4 set in initiate upload response", r)
        e, s, n = (cmd >> 1) & 1, cmd & 1, (cmd >> 2) & 3
        if e:
            if s:
                size = 4 - n
            else:
                if n:
                    self._err("n", "n set without s in expedited upload response", r)
                size = 4
            if any(r[4 + size:8]):
                self._err("padding", "bytes after expedited data are not zero", r)
            return ("ok", r[4:4 + size])
        if n:
            self._err("n", "n set in segmented initiate upload response", r)
        declared = struct.unpack_from("<L", r, 4)[0] if s else None
        if not s and any(r[4:8]):
            self._err("reserved", "size field not zero although s=0", r)
        buf = bytearray()
        t = 0
        for _ in range(100000):
            r = self.xfer(bytes([0x60 | (t << 4)]) + bytes(7))
            if r is None or len(r) != 8:
                return ("error", None)
            if self.is_abort(r):
                return ("abort", self.abort_fields(r))
            cmd = r[0]
            if cmd >> 5 != 0:
                self._err("scs", f"upload segment response scs {cmd >> 5}", r)
                return ("error", None)
            if (cmd >> 4) & 1 != t:
                self._err("toggle", f"segment toggle {(cmd >> 4) & 1}, expected {t}", r)
            n, c = (cmd >> 1) & 7, cmd & 1
            ln = 7 - n
            if any(r[1 + ln:8]):
                self._err("padding", "unused segment bytes are not zero", r)
            buf += r[1:1 + ln]
            t ^= 1
            if c:
                break
            if ln == 0:
                self._err("empty-segment", "empty segment that is not the last one", r)
            if declared is not None and len(buf) >= declared:
                self._err("c", f"no last-segment flag although {len(buf)} of {declared} bytes are through", r)
                if len(buf) > declared + 64:
                    return ("error", None)
        if declared is not None and declared != len(buf):
            self._err("size", f"announced {declared} bytes, delivered {len(buf)}")
        return ("ok", bytes(buf))

    # ---- download -------------------------------------------------------------
    def download(self, index, sub, data, style="auto"):
        """style: 'exp' (1..4 bytes), 'exp_nosize' (4 bytes), 'seg_size', 'seg_nosize'."""
        data = bytes(data)
        if style == "auto":
            style = "exp" if 1 <= len(data) <= 4 else "seg_size"
        if style == "exp":
            n = 4 - len(data)
            req = struct.pack("<BHB", 0x23 | (n << 2), index, sub) + data.ljust(4, b"\0")
        elif style == "exp_nosize":
            req = struct.pack("<BHB", 0x22, index, sub) + data
        elif style == "seg_size":
            req = struct.pack("<BHBL", 0x21, index, sub, len(data))
        else:
            req = struct.pack("<BHB4x", 0x20, index, sub)
        r = self.xfer(req)
        if r is None or len(r) != 8:
            return ("error", None)
        if self.is_abort(r):
            return ("abort", self.abort_fields(r))
        if r[0] != 0x60:
            self._err("scs", f"initiate download response command {r[0]:02x}", r)
            return ("error", None)
        if struct.unpack_from("<HB", r, 1) != (index, sub):
            self._err("mux", "initiate download response for another multiplexer", r)
        if any(r[4:8]):
            self._err("reserved", "reserved bytes of initiate download response not zero", r)
        if style in ("exp", "exp_nosize"):
            return ("ok", None)
        t = 0
        pos = 0
        while True:
            chunk = data[pos:pos + 7]
            pos += len(chunk)
            last = pos >= len(data)
            req = bytes([(t << 4) | ((7 - len(chunk)) << 1) | (1 if last else 0)]) + chunk.ljust(7, b"\0")
            r = self.xfer(req)
            if r is None or len(r) != 8:
                return ("error", None)
            if self.is_abort(r):
                return ("abort", self.abort_fields(r))
            if r[0] >> 5 != 1:
                self._err("scs", f"download segment response scs {r[0] >> 5}", r)
                return ("error", None)
            if (r[0] >> 4) & 1 != t:
                self._err("toggle", f"download segment response toggle {(r[0] >> 4) & 1} expected {t}", r)
            if r[0] & 0x0F or any(r[1:8]):
                self._err("reserved", "reserved bits/bytes of download segment response not zero", r)
            t ^= 1
            if last:
                return ("ok", None)

    def raw(self, frame):
        """Arbitrary frame: whatever it is, the answer must be one 8-byte frame
        (client aborts excepted, which the caller handles)."""
        return self.xfer(frame)
