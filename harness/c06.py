"""C06 - refused SDO accesses report the standard abort code and change nothing.

Three drivers (case["kind"]):
  server      frame-level reference client against LocalNode/SdoServer (shares the
              C02 interpreter, generator biased to refusals): abort code set per
              condition, multiplexer of the transfer, store/callbacks unchanged
  client_api  the same refusals through RemoteNode.sdo upload()/download()/open()
              against the library's own server on a second network: the raised
              SdoAbortedError.code must equal the code on the wire, exactly one
              abort frame is on the wire, nothing follows it
  decode      the client against a scripted peer that aborts with a chosen code
              at a chosen protocol step: SdoAbortedError.code == code sent
"""
import struct

from hypothesis import strategies as st

from harness import c02
from harness import refcodec as rc
from harness.core import Discrepancy, Outcome
from harness.odutil import build_od, entries
from harness.refsdo import RefSdoServer
from harness.simbus import Frame, Hub

PROPERTY = "C06"
LEVEL = "exploration"
RULE = ("three drivers: (server) C02-style histories on a fresh LocalNode biased to refusals - wo reads, "
        "ro/const writes, missing index, missing record sub-index, numeric types x payload lengths 0..9 "
        "(expedited, segmented with/without size), entries without value, wrong toggle, ccs 7, block "
        "download, and the access type of an entry changed by the application while serving (every ordered "
        "pair of rw/ro/wo/const) - placed before/between/after successful transfers; read callbacks "
        "(returning a typed value / bytes / None, 1..3 registered) in front of write-only entries, entries "
        "without value and missing sub-indexes (variable, record member, listed and template-described array "
        "member; normal and block-upload initiate); a wrong-toggle segment - non-last and LAST with 0..7 "
        "payload bytes - sent into an open transfer after 0..2 good segments (the last one would otherwise "
        "complete a valid / a refused write); ccs 7 in the middle of an open transfer (abort must name the "
        "transfer or echo bytes 1..3); too-short payloads accept 0607 0010/0013, too-long ones 0607 0010/0012; "
        "the dictionary of the serving node re-shaped by the application through its public mapping "
        "interface AFTER the entries concerned were served (use, re-configure, use again; add, remove, add): access "
        "type of an array's template member changed after unlisted members were used, an object removed (no such "
        "index) and a different object - variable / record / array, other data type, other access type - added "
        "under the same index, a used record member removed (in place / by a new record); every request is judged "
        "by the dictionary as it is at the request; "
        "(client_api) the same refusals "
        "through RemoteNode.sdo against the library's server, comparing the raised code with the abort "
        "frame on the wire; (decode) a scripted peer aborting with codes {all documented, 0, 1, 2^31, "
        "2^32-1, random} at every protocol step. Oracle: table condition -> CiA 301 code set, "
        "multiplexer of the transfer, store and callback log unchanged. Non-trivial = a refusal "
        "actually occurred; distinct = canonical JSON.")
ASSUMPTIONS = c02.ASSUMPTIONS + [
    "when several refusal conditions apply to one request any of their codes is accepted",
    "block upload is legally downgraded, so only block download counts as unsupported",
    "when the application removes an object / a record member from the dictionary of a serving node it also "
    "removes what the node had stored for it (data_store); the refusal conditions are those of the dictionary "
    "as it is when the request arrives",
    "a late answer left over from a request that timed out (client one frame behind) is a disturbance of the "
    "transfer, not a C06 input: it belongs to C07, which catches that class",
]
BUDGET = {"quick": 150, "thorough": 420}

NODE = c02.NODE


class _ExcRecord:
    """What the judgement needs of an exception, without the exception object (and the frames its
    traceback keeps alive)."""

    def __init__(self, e):
        from canopen.sdo.exceptions import SdoAbortedError
        self.name = type(e).__name__
        self.text = str(e)[:200]
        self.is_abort = isinstance(e, SdoAbortedError)
        self.code = getattr(e, "code", None)


def run_case(case) -> Outcome:
    kind = case.get("kind", "server")
    if kind == "server":
        out, feats = c02.run_history(case, "C06")
        out.nontrivial = bool(feats & {"refused-read", "refused-write", "unknown-command", "refused-toggle"})
        out.klass = "server/" + out.klass
        return out
    if kind == "client_api":
        return run_client_api(case)
    return run_decode(case)


# ---- driver 2 -----------------------------------------------------------------
def run_client_api(case):
    import canopen
    from canopen.sdo import SdoAbortedError
    hub = Hub()
    net_s, port_s = hub.attach("server")
    net_c, port_c = hub.attach("client")
    od_s = build_od(case["od"])
    od_c = build_od(case["od"])
    local = canopen.LocalNode(NODE, od_s)
    net_s.add_node(local)
    remote = canopen.RemoteNode(NODE, od_c)
    net_c.add_node(remote)
    remote.sdo.RESPONSE_TIMEOUT = 0.05
    wlog = []
    local.add_write_callback(lambda **kw: wlog.append((kw["index"], kw["subindex"], bytes(kw["data"]))))
    rcb = {(r["index"], r["sub"]): r for r in case.get("read_cb", [])}
    ncb = case.get("read_cbs") or (1 if rcb else 0)

    def make_rcb(k):
        def cb(**kw):
            r = rcb.get((kw["index"], kw["subindex"]))
            if r is None or r.get("cb", 0) % ncb != k:
                return None
            return r["ret"]
        return cb
    for k in range(ncb):
        local.add_read_callback(make_rcb(k))
    m = c02.Model(case)
    D = []
    refusals = 0

    def bad(kind, detail):
        D.append(Discrepancy(f"C06/client/{kind}", detail))

    for n, op in enumerate(case["ops"]):
        index, sub = op["index"], op["sub"]
        tag = f"step {n} {op['op']} {index:04x}:{sub:02x}"
        mark_s, mark_c = len(port_s.sent), len(port_c.sent)
        before = c02._store_snapshot(local)
        wl = len(wlog)
        exc = None
        result = None
        try:
            if op["op"] == "upload":
                exp = m.expected_read(index, sub)
                if op.get("via") == "open":
                    with remote.sdo.open(index, sub, "rb", buffering=op.get("buffering", 0),
                                         block_transfer=bool(op.get("block"))) as fp:
                        result = fp.read()
                else:
                    result = remote.sdo.upload(index, sub)
            else:
                data = bytes(op["data"])
                exp = m.expected_write(index, sub, data)
                if op.get("via") == "open":
                    with remote.sdo.open(index, sub, "wb", buffering=op.get("buffering", 0),
                                         size=len(data) if op.get("size_decl", True) else None,
                                         force_segment=op.get("force", False)) as fp:
                        pos = 0
                        while pos < len(data):
                            k = fp.write(data[pos:])
                            pos += k if k else len(data)
                else:
                    remote.sdo.download(index, sub, data, force_segment=op.get("force", False))
        except SdoAbortedError as e:
            exc = _ExcRecord(e)
        except Exception as e:  # any other exception type
            exc = _ExcRecord(e)
        # (only a record of the exception is kept: the exception object would keep the library's stream
        #  object alive through its traceback, and whatever its finaliser does would land in a later step)
        aborts = [f for f in port_s.sent[mark_s:] if f.can_id == 0x580 + NODE and f.data[:1] == b"\x80"]
        if exp[0] == "skip":
            if op["op"] == "download":
                m.taint.add(m.key(index, sub))
            continue
        if exp[0] == "ok":
            if exc is not None:
                bad("valid-access-raised", f"{tag}: {exc.name}: {exc.text}")
            elif op["op"] == "download":
                m.store[m.key(index, sub)] = bytes(op["data"])
                m.taint.discard(m.key(index, sub))
        else:
            refusals += 1
            if exc is None:
                bad("no-exception", f"{tag}: refused access returned normally ({result!r})")
            elif not exc.is_abort:
                bad("wrong-exception", f"{tag}: raised {exc.name}: {exc.text} instead of SdoAbortedError")
            else:
                if not aborts:
                    bad("no-abort-frame", f"{tag}: SdoAbortedError({exc.code:08x}) but no abort frame on the wire")
                else:
                    # the abort frame this call received: the first one of this step with the code raised
                    # (further frames - e.g. what a stream finaliser of the library provokes afterwards -
                    # are not the answer to the refused access and not the property's subject)
                    codes = [struct.unpack_from("<L", f.data, 4)[0] for f in aborts]
                    if exc.code not in codes:
                        bad("code-differs-from-wire", f"{tag}: raised code {exc.code:08x}, abort frames "
                                                      f"carried {[hex(c) for c in codes]}")
                    else:
                        own = aborts[codes.index(exc.code)]
                        if exc.code not in exp[1]:
                            bad("abort-code", f"{tag}: code {exc.code:08x} not in {sorted(hex(c) for c in exp[1])}")
                        if struct.unpack_from("<HB", own.data, 1) != (index, sub):
                            bad("abort-mux", f"{tag}: abort frame {own.data.hex()} does not carry the "
                                             f"multiplexer of the transfer")
            if op["op"] == "download":
                if c02._store_snapshot(local) != before:
                    bad("refused-write-changed-store", tag)
                if len(wlog) != wl:
                    bad("refused-write-callback", tag)
        if D:
            break
    return Outcome(refusals > 0, f"client_api/{'refusal' if refusals else 'plain'}", D)


# ---- driver 3 -----------------------------------------------------------------
def run_decode(case):
    import canopen
    from canopen.sdo import SdoAbortedError
    code = case["code"]
    where = case["where"]
    n = case["length"]
    hub = Hub()
    server = RefSdoServer(0x600 + NODE, 0x580 + NODE)
    server.attach(hub)
    net, port = hub.attach("client")
    node = canopen.RemoteNode(NODE, build_od([]))
    net.add_node(node)
    node.sdo.RESPONSE_TIMEOUT = 0.05
    data = bytes((i % 251) + 1 for i in range(n))
    server.store[(0x2000, 1)] = data
    server.upload_style = lambda i, s, d: case.get("style")
    k = case.get("step", 0)
    count = {"n": 0}
    abort_frame = struct.pack("<BHBL", 0x80, 0x2000, 1, code)

    def flt(fr, h):
        if fr.can_id == 0x580 + NODE:
            if count["n"] == k:
                count["n"] += 1
                return [Frame(fr.can_id, abort_frame, ts=fr.ts, src=fr.src)]
            count["n"] += 1
        return [fr]

    hub.filter = flt
    D = []
    exc = None
    try:
        if where == "upload":
            node.sdo.upload(0x2000, 1)
        elif where == "download":
            node.sdo.download(0x2000, 1, data, force_segment=case.get("force", False))
        elif where == "block_upload":
            with node.sdo.open(0x2000, 1, "rb", block_transfer=True) as fp:
                fp.read()
        else:
            with node.sdo.open(0x2000, 1, "wb", size=n, block_transfer=True) as fp:
                fp.write(data)
    except Exception as e:
        exc = e
    hit = count["n"] > k
    if not hit:
        return Outcome(excluded="abort step beyond the end of the transfer")
    if not isinstance(exc, SdoAbortedError):
        D.append(Discrepancy("C06/decode/not-raised", f"abort {code:08x} at response {k} of {where} "
                             f"({n} bytes): outcome {type(exc).__name__ if exc else 'normal return'}: {exc}"))
    elif exc.code != code:
        D.append(Discrepancy("C06/decode/code", f"abort {code:08x} at response {k} of {where} ({n} bytes) "
                             f"raised code {exc.code:08x}"))
    return Outcome(True, f"decode/{where}/step{min(k, 3)}", D)


# ---- generation -----------------------------------------------------------------
def refusal_matrix():
    """Numeric types x payload lengths 0..9 x access types x styles, and the
    other refusal kinds, each surrounded by successful transfers."""
    good = {"kind": "var", "index": 0x2100, "name": "good", "dt": rc.DOMAIN, "access": "rw",
            "default": b"0123456789"}
    ok_before = {"op": "upload", "index": 0x2100, "sub": 0}
    ok_after = {"op": "download", "index": 0x2100, "sub": 0, "data": b"abcdefghijk", "style": "seg_size"}
    for dt in sorted(rc.NUMERIC):
        for access in ("rw", "ro", "wo", "const", "rwr", "rww"):
            od = [good, {"kind": "var", "index": 0x2000, "name": "num", "dt": dt, "access": access,
                         "default": 1 if dt in rc.INTEGERS else 1.5},
                  {"kind": "record", "index": 0x2001, "name": "rec", "members": [
                      {"sub": 0, "name": "n", "dt": rc.UNSIGNED8, "access": "ro", "default": 2},
                      {"sub": 2, "name": "m", "dt": dt, "access": access}]}]
            for n in range(0, 10):
                data = bytes(range(1, n + 1))
                styles = ["seg_size", "seg_nosize"] + (["exp"] if 1 <= n <= 4 else []) + \
                         (["exp_nosize"] if n == 4 else [])
                for stl in styles:
                    for (index, sub) in ((0x2000, 0), (0x2001, 2)):
                        for place in ("first", "between"):
                            ops = [] if place == "first" else [ok_before]
                            ops += [{"op": "download", "index": index, "sub": sub, "data": data, "style": stl},
                                    {"op": "upload", "index": index, "sub": sub}, ok_after,
                                    {"op": "upload", "index": 0x2100, "sub": 0}]
                            yield {"kind": "server", "od": od, "ops": ops}
    # the access type of an entry changes while the node is serving: every ordered pair
    for dt in (rc.UNSIGNED16, rc.DOMAIN):
        d_ok = b"\x34\x12" if dt == rc.UNSIGNED16 else b"0123456789abc"
        stl = "exp" if dt == rc.UNSIGNED16 else "seg_size"
        for a in ("rw", "ro", "wo", "const"):
            for b in ("rw", "ro", "wo", "const"):
                if a == b:
                    continue
                od = [good, {"kind": "var", "index": 0x2000, "name": "num", "dt": dt, "access": a,
                             "default": 7 if dt == rc.UNSIGNED16 else b"dflt"},
                      {"kind": "record", "index": 0x2001, "name": "rec", "members": [
                          {"sub": 0, "name": "n", "dt": rc.UNSIGNED8, "access": "ro", "default": 2},
                          {"sub": 2, "name": "m", "dt": dt, "access": a,
                           "default": 9 if dt == rc.UNSIGNED16 else b"member"}]}]
                for (index, sub) in ((0x2000, 0), (0x2001, 2)):
                    yield {"kind": "server", "od": od, "ops": [
                        {"op": "upload", "index": index, "sub": sub},
                        {"op": "download", "index": index, "sub": sub, "data": d_ok, "style": stl},
                        {"op": "set_access", "index": index, "sub": sub, "access": b},
                        {"op": "upload", "index": index, "sub": sub},
                        {"op": "download", "index": index, "sub": sub, "data": d_ok[::-1], "style": stl},
                        {"op": "upload", "index": index, "sub": sub},
                        {"op": "set_access", "index": index, "sub": sub, "access": a},
                        {"op": "download", "index": index, "sub": sub, "data": d_ok, "style": stl},
                        {"op": "upload", "index": index, "sub": sub}, ok_after]}
    # arrays: listed and template-described members under every access type
    for access in ("rw", "ro", "wo", "const"):
        for dt in (rc.UNSIGNED16, rc.INTEGER24, rc.DOMAIN):
            od = [good, {"kind": "array", "index": 0x2200, "name": "arr", "members": [
                {"sub": 0, "name": "n", "dt": rc.UNSIGNED8, "access": "ro", "default": 8},
                {"sub": 1, "name": "el", "dt": dt, "access": access,
                 "default": 7 if dt in rc.INTEGERS else b"default-bytes"},
                {"sub": 3, "name": "el3", "dt": dt, "access": access}]}]
            for sub in (1, 2, 3, 6, 255):
                for data, stl in ((b"\x01\x02", "exp"), (b"\x01\x02\x03", "seg_size"), (b"123456789", "seg_nosize")):
                    yield {"kind": "server", "od": od, "ops": [
                        ok_before, {"op": "upload", "index": 0x2200, "sub": sub},
                        {"op": "download", "index": 0x2200, "sub": sub, "data": data, "style": stl},
                        {"op": "upload", "index": 0x2200, "sub": sub}, ok_after]}
                yield {"kind": "client_api", "od": od, "ops": [
                    {"op": "upload", "index": 0x2200, "sub": sub},
                    {"op": "download", "index": 0x2200, "sub": sub, "data": b"\x05\x06", "force": False},
                    {"op": "download", "index": 0x2200, "sub": sub, "data": b"\x05\x06\x07", "force": True},
                    {"op": "upload", "index": 0x2100, "sub": 0}]}
    od = [good, {"kind": "record", "index": 0x2001, "name": "rec", "members": [
        {"sub": 0, "name": "n", "dt": rc.UNSIGNED8, "access": "ro", "default": 2},
        {"sub": 2, "name": "m", "dt": rc.UNSIGNED16, "access": "rw"}]}]
    for index in (0x0000, 0x0001, 0x1000, 0x2002, 0x20FF, 0x2101, 0xFFFF):
        for sub in (0, 1, 255):
            for first in (True, False):
                yield {"kind": "server", "od": od, "ops":
                       ([] if first else [ok_before]) +
                       [{"op": "upload", "index": index, "sub": sub},
                        {"op": "download", "index": index, "sub": sub, "data": b"\x01\x02", "style": "exp"},
                        {"op": "download", "index": index, "sub": sub, "data": b"123456789", "style": "seg_size"},
                        ok_after]}
    for sub in (1, 3, 4, 100, 255):
        yield {"kind": "server", "od": od, "ops": [
            ok_before, {"op": "upload", "index": 0x2001, "sub": sub},
            {"op": "download", "index": 0x2001, "sub": sub, "data": b"\x01\x02", "style": "exp"},
            {"op": "download", "index": 0x2001, "sub": sub, "data": b"\x01\x02", "style": "seg_nosize"}, ok_after]}
    # a record / an array that is present but has no members at all: every sub-index is a missing one
    od_empty = [good, {"kind": "record", "index": 0x2001, "name": "rec", "members": []},
                {"kind": "array", "index": 0x2200, "name": "arr", "members": []}]
    for index in (0x2001, 0x2200):
        for sub in (0, 1, 2, 255):
            yield {"kind": "server", "od": od_empty, "ops": [
                ok_before, {"op": "upload", "index": index, "sub": sub},
                {"op": "download", "index": index, "sub": sub, "data": b"\x01\x02", "style": "exp"},
                {"op": "download", "index": index, "sub": sub, "data": b"123456789", "style": "seg_size"}, ok_after]}
            yield {"kind": "client_api", "od": od_empty, "ops": [
                {"op": "upload", "index": index, "sub": sub},
                {"op": "download", "index": index, "sub": sub, "data": b"\x01\x02", "force": False}]}
    # wrong toggle in both directions, as first segment and later
    for first in (True, False):
        pre = [] if first else [ok_before]
        yield {"kind": "server", "od": od, "ops": pre + [
            {"op": "upload", "index": 0x2100, "sub": 0, "stop_after": 0},
            {"op": "toggle", "dir": "up", "t": 1}, ok_after]}
        yield {"kind": "server", "od": od, "ops": pre + [
            {"op": "upload", "index": 0x2100, "sub": 0, "stop_after": 1},
            {"op": "toggle", "dir": "up", "t": 0}, ok_after]}
        yield {"kind": "server", "od": od, "ops": pre + [
            {"op": "download", "index": 0x2100, "sub": 0, "data": b"x" * 30, "style": "seg_size", "stop_after": 0},
            {"op": "toggle", "dir": "down", "t": 1}, {"op": "upload", "index": 0x2100, "sub": 0}]}
        yield {"kind": "server", "od": od, "ops": pre + [
            {"op": "download", "index": 0x2100, "sub": 0, "data": b"x" * 30, "style": "seg_nosize", "stop_after": 1},
            {"op": "toggle", "dir": "down", "t": 0}, {"op": "upload", "index": 0x2100, "sub": 0}]}
    # a segment with the wrong toggle bit sent into an open download after k good segments: not the last
    # one / flagged as the last one with 0..7 payload bytes (with the right toggle it would complete a
    # valid write, or one that is refused anyway); into an open upload after k segments
    od_t = od + [{"kind": "var", "index": 0x2101, "name": "long", "dt": rc.DOMAIN, "access": "rw",
                  "default": b"0123456789abcdefghijklmnopqrstuvwxyz"},
                 {"kind": "var", "index": 0x2102, "name": "u32", "dt": rc.UNSIGNED32, "access": "rw", "default": 5},
                 {"kind": "var", "index": 0x2103, "name": "locked", "dt": rc.DOMAIN, "access": "ro",
                  "default": b"read-only"}]
    for first in (True, False):
        pre = [] if first else [ok_before]
        for k in (0, 1, 2, 3):
            yield {"kind": "server", "od": od_t, "ops": pre + [
                {"op": "upload", "index": 0x2101, "sub": 0, "stop_after": k},
                {"op": "toggle", "dir": "up"}, {"op": "upload", "index": 0x2101, "sub": 0}, ok_after]}
        for stl in ("seg_size", "seg_nosize"):
            for k in (0, 1, 2):
                for payload in (None, b"", b"x", b"xyz", b"abcdefg"):
                    tg = {"op": "toggle", "dir": "down"}
                    if payload is not None:
                        tg.update(last=True, payload=payload)
                    for index, data in ((0x2101, b"ABCDEFGHIJKLMNOPQRSTUVWXYZ"), (0x2103, b"ABCDEFGHIJKLMNOPQRSTUVWXYZ")):
                        yield {"kind": "server", "od": od_t, "ops": pre + [
                            {"op": "download", "index": index, "sub": 0, "data": data, "style": stl, "stop_after": k},
                            tg, {"op": "upload", "index": index, "sub": 0}, ok_after,
                            {"op": "upload", "index": index, "sub": 0}]}
            # numeric entries: the wrong-toggle last segment carries exactly / not exactly the entry's size
            for index, sub, width in ((0x2102, 0, 4), (0x2001, 2, 2), (0x2001, 0, 1)):
                for n in (0, width, width + 1):
                    yield {"kind": "server", "od": od_t, "ops": pre + [
                        {"op": "download", "index": index, "sub": sub, "data": bytes(range(1, n + 1)), "style": stl,
                         "stop_after": 0},
                        {"op": "toggle", "dir": "down", "last": True, "payload": bytes(range(1, n + 1))},
                        {"op": "upload", "index": index, "sub": sub}, ok_after]}
    # an unknown command in the middle of an open transfer: the abort names that transfer (or echoes
    # bytes 1..3 of the frame)
    for b0 in (0xE0, 0xE1, 0xF3, 0xFF):
        for tail in (struct.pack("<HB", 0x2001, 2) + bytes([9, 0, 0, 0]), bytes([0xFF] * 7), bytes(7)):
            for k in (0, 1):
                for opn in ({"op": "upload", "index": 0x2101, "sub": 0, "stop_after": k},
                            {"op": "download", "index": 0x2101, "sub": 0, "data": b"ABCDEFGHIJKLMNOPQRSTUVWXYZ",
                             "style": "seg_size", "stop_after": k}):
                    yield {"kind": "server", "od": od_t, "ops": [
                        ok_before, opn, {"op": "junk", "frame": bytes([b0]) + tail}, ok_after,
                        {"op": "upload", "index": 0x2101, "sub": 0}]}
    # read callbacks in front of entries that must not / cannot be read: a callback does not make a
    # write-only entry readable, nor a missing index / sub-index exist; a callback returning None leaves
    # an entry without value without value
    od_cb = [good,
             {"kind": "var", "index": 0x2000, "name": "cmd", "dt": rc.UNSIGNED16, "access": "wo", "default": 7},
             {"kind": "record", "index": 0x2001, "name": "rec", "members": [
                 {"sub": 0, "name": "n", "dt": rc.UNSIGNED8, "access": "ro", "default": 2},
                 {"sub": 2, "name": "m", "dt": rc.UNSIGNED16, "access": "wo"}]},
             {"kind": "array", "index": 0x2200, "name": "arr", "members": [
                 {"sub": 0, "name": "n", "dt": rc.UNSIGNED8, "access": "ro", "default": 8},
                 {"sub": 1, "name": "el", "dt": rc.DOMAIN, "access": "wo", "default": b"default-bytes"},
                 {"sub": 3, "name": "el3", "dt": rc.DOMAIN, "access": "wo"}]},
             {"kind": "var", "index": 0x2300, "name": "empty", "dt": rc.UNSIGNED16, "access": "rw"},
             {"kind": "record", "index": 0x2301, "name": "rec2", "members": [
                 {"sub": 0, "name": "n", "dt": rc.UNSIGNED8, "access": "ro", "default": 1},
                 {"sub": 1, "name": "m", "dt": rc.DOMAIN, "access": "ro"}]}]
    targets = [(0x2000, 0, rc.UNSIGNED16, True), (0x2001, 2, rc.UNSIGNED16, True), (0x2200, 1, rc.DOMAIN, True),
               (0x2200, 3, rc.DOMAIN, True), (0x2200, 6, rc.DOMAIN, True), (0x2300, 0, rc.UNSIGNED16, False),
               (0x2301, 1, rc.DOMAIN, False), (0x2001, 5, rc.UNSIGNED16, False), (0x2999, 0, rc.UNSIGNED16, False)]
    for index, sub, dt, wo in targets:
        for how in ("typed", "bytes", "none"):
            if how == "none":
                ret = None
            elif dt == rc.UNSIGNED16:
                ret = 0x1234 if how == "typed" else b"\x34\x12"
            else:
                ret = b"live" if how == "typed" else b"live-value-0123456789"
            for ncb in (1, 2, 3):
                for cb in range(ncb):
                    cbs = {"read_cb": [{"index": index, "sub": sub, "ret": ret, "cb": cb},
                                       {"index": 0x2100, "sub": 0, "ret": None, "cb": (cb + 1) % ncb}],
                           "read_cbs": ncb}
                    yield dict(cbs, kind="server", od=od_cb, ops=[
                        {"op": "upload", "index": index, "sub": sub},
                        {"op": "upload", "index": index, "sub": sub, "blockinit": True},
                        {"op": "upload", "index": index, "sub": sub, "stop_after": 1},
                        ok_before, ok_after, {"op": "upload", "index": index, "sub": sub}])
                    ops = [{"op": "upload", "index": index, "sub": sub},
                           {"op": "upload", "index": index, "sub": sub, "via": "open", "buffering": 0},
                           {"op": "upload", "index": 0x2100, "sub": 0}]
                    if wo:
                        ops.insert(2, {"op": "upload", "index": index, "sub": sub, "via": "open", "buffering": 0,
                                       "block": True})
                    yield dict(cbs, kind="client_api", od=od_cb, ops=ops)
    # unknown / unsupported commands
    # (ccs 7: unknown; ccs 6: every block download frame - initiate and the other sub-commands - is unsupported)
    for b0 in list(range(0xE0, 0x100)) + list(range(0xC0, 0xE0)):
        for first in (True, False):
            fr = bytes([b0]) + struct.pack("<HB", 0x2001, 2) + bytes([9, 0, 0, 0])
            yield {"kind": "server", "od": od, "ops": ([] if first else [ok_before]) + [
                {"op": "junk", "frame": fr}, ok_after, {"op": "upload", "index": 0x2100, "sub": 0}]}


def reshape_matrix(thorough=False):
    """The object dictionary of the serving node is re-shaped by the application AFTER the node has served
    requests for the entries concerned (use, re-configure, use again / add, remove, add): every refusal is
    decided on the dictionary as it is at the request, not as it was when the entry was first addressed."""
    good = {"kind": "var", "index": 0x2100, "name": "good", "dt": rc.DOMAIN, "access": "rw",
            "default": b"0123456789"}
    ok_before = {"op": "upload", "index": 0x2100, "sub": 0}
    ok_after = {"op": "download", "index": 0x2100, "sub": 0, "data": b"abcdefghijk", "style": "seg_size"}

    def val(dt, k=0):
        if dt in rc.INTEGERS:
            return 7 + k
        if dt in rc.REALS:
            return 1.5 + k
        if dt in (rc.VISIBLE_STRING, rc.UNICODE_STRING):
            return "text-%d" % k
        return b"bytes-%d" % k

    def payload(dt, k):
        n = rc.NUMERIC[dt] // 8 if dt in rc.NUMERIC else 9
        return bytes(range(1 + k, 1 + k + n))

    def use(index, sub, dt, k=0, wrong=True):
        """read, write a fitting payload (expedited when it fits, else segmented), read back, and - for
        numeric types - a write of the wrong length in the other style"""
        d = payload(dt, k)
        ops = [{"op": "upload", "index": index, "sub": sub},
               {"op": "download", "index": index, "sub": sub, "data": d,
                "style": "exp" if 1 <= len(d) <= 4 else "seg_size"},
               {"op": "upload", "index": index, "sub": sub}]
        if wrong:
            ops.append({"op": "download", "index": index, "sub": sub, "data": d + b"\x55",
                        "style": "seg_nosize" if k % 2 else "seg_size"})
            ops.append({"op": "download", "index": index, "sub": sub, "data": d[:-1] or b"\x01\x02\x03",
                        "style": "exp" if 2 <= len(d) <= 5 and d[:-1] else "seg_size"})
        return ops

    accesses = ("rw", "ro", "wo", "const")
    # (1) array: the access type of the template (member 1) changes after unlisted members were used
    for dt in (rc.UNSIGNED16, rc.DOMAIN) + ((rc.INTEGER24, rc.REAL32) if thorough else ()):
        for a in accesses:
            for b in accesses:
                if a == b:
                    continue
                od = [good, {"kind": "array", "index": 0x2200, "name": "arr", "members": [
                    {"sub": 0, "name": "n", "dt": rc.UNSIGNED8, "access": "ro", "default": 8},
                    {"sub": 1, "name": "el", "dt": dt, "access": a, "default": val(dt)},
                    {"sub": 3, "name": "el3", "dt": dt, "access": a, "default": val(dt, 1)}]}]
                yield {"kind": "server", "od": od, "ops": [ok_before] +
                       use(0x2200, 2, dt, 0) + use(0x2200, 1, dt, 1, wrong=False) + use(0x2200, 3, dt, 2, wrong=False) +
                       [{"op": "set_access", "index": 0x2200, "sub": 1, "access": b}] +
                       use(0x2200, 2, dt, 3) + use(0x2200, 5, dt, 4) + use(0x2200, 3, dt, 5, wrong=False) +
                       [{"op": "set_access", "index": 0x2200, "sub": 1, "access": a}] +
                       use(0x2200, 2, dt, 6, wrong=False) + use(0x2200, 5, dt, 7, wrong=False) + [ok_after]}
    # (2) an object is used, removed (every access: no such index), and a different object is added
    #     under the same index: variable / record / array, other data type, other access type
    olds = [(rc.UNSIGNED16, "rw"), (rc.DOMAIN, "ro"), (rc.UNSIGNED32, "wo")]
    news = [(d, a) for d in (rc.UNSIGNED32, rc.UNSIGNED8, rc.DOMAIN, rc.REAL32) for a in accesses]
    if thorough:
        olds += [(rc.INTEGER8, "const"), (rc.REAL64, "rw"), (rc.VISIBLE_STRING, "rw")]
        news += [(d, a) for d in (rc.UNSIGNED16, rc.INTEGER64, rc.OCTET_STRING) for a in accesses]

    def obj(kind, dt, access, tag, subs=(1, 2)):
        if kind == "var":
            return {"kind": "var", "index": 0x2200, "name": tag, "dt": dt, "access": access, "default": val(dt)}
        return {"kind": kind, "index": 0x2200, "name": tag, "members": [
            {"sub": 0, "name": tag + "n", "dt": rc.UNSIGNED8, "access": "ro", "default": len(subs)}] + [
            {"sub": s_, "name": f"{tag}m{s_}", "dt": dt, "access": access, "default": val(dt, s_)} for s_ in subs]}

    for (dt1, a1) in olds:
        for (dt2, a2) in news:
            for kinds in (("var", "var"), ("record", "record"), ("var", "array"), ("array", "record")):
                if kinds != ("var", "var") and not thorough and (dt2, a2) not in (
                        (rc.UNSIGNED32, "ro"), (rc.DOMAIN, "wo"), (rc.UNSIGNED8, "rw"), (rc.REAL32, "const")):
                    continue
                sub = 0 if kinds[0] == "var" else 2
                sub2 = 0 if kinds[1] == "var" else 2
                ops = [ok_before] + use(0x2200, sub, dt1, 0) + [{"op": "replace", "index": 0x2200}] + \
                    use(0x2200, sub, dt1, 1, wrong=False) + \
                    [{"op": "replace", "index": 0x2200, "spec": obj(kinds[1], dt2, a2, "new")}] + \
                    use(0x2200, sub, dt2, 2) + (use(0x2200, sub2, dt2, 3) if sub2 != sub else []) + \
                    [{"op": "replace", "index": 0x2200, "spec": obj(kinds[0], dt1, a1, "again")}] + \
                    use(0x2200, sub, dt1, 4) + [ok_after, ok_before]
                yield {"kind": "server", "od": [good, obj(kinds[0], dt1, a1, "old")], "ops": ops}
    # (3) a record loses a member that has been used (in place / by a new record under the same index);
    #     an array is replaced by a record, so that its unlisted members no longer exist
    for dt, a in ((rc.UNSIGNED16, "rw"), (rc.DOMAIN, "rw"), (rc.UNSIGNED32, "ro"), (rc.DOMAIN, "wo")):
        rec = obj("record", dt, a, "rec", subs=(1, 2, 4))
        yield {"kind": "server", "od": [good, rec], "ops": [ok_before] +
               use(0x2200, 2, dt, 0) + use(0x2200, 4, dt, 1, wrong=False) +
               [{"op": "del_member", "index": 0x2200, "sub": 2}] +
               use(0x2200, 2, dt, 2, wrong=False) + use(0x2200, 4, dt, 3, wrong=False) +
               [{"op": "del_member", "index": 0x2200, "sub": 4}, {"op": "del_member", "index": 0x2200, "sub": 0}] +
               use(0x2200, 4, dt, 4, wrong=False) + use(0x2200, 0, rc.UNSIGNED8, 5, wrong=False) +
               use(0x2200, 1, dt, 6) + [ok_after]}
        yield {"kind": "server", "od": [good, rec], "ops": [ok_before] +
               use(0x2200, 2, dt, 0) + use(0x2200, 1, dt, 1, wrong=False) +
               [{"op": "replace", "index": 0x2200, "spec": obj("record", dt, a, "rec2", subs=(1,))}] +
               use(0x2200, 2, dt, 2, wrong=False) + use(0x2200, 1, dt, 3) + [ok_after]}
        arr = obj("array", dt, a, "arr", subs=(1,))
        yield {"kind": "server", "od": [good, arr], "ops": [ok_before] +
               use(0x2200, 6, dt, 0) + use(0x2200, 1, dt, 1, wrong=False) +
               [{"op": "replace", "index": 0x2200, "spec": obj("record", dt, a, "rec3", subs=(1, 2))}] +
               use(0x2200, 6, dt, 2, wrong=False) + use(0x2200, 2, dt, 3) + [ok_after]}


@st.composite
def reshape_history(draw):
    """Random dictionaries; one or two objects of them are used, re-shaped by the application (replaced
    by a drawn object, removed, a record member removed, the access type of a listed entry / an array
    template changed) and used again, several times; the entries addressed are mostly those addressed
    before."""
    od = draw(c02.od_spec(30, min_objs=2, max_objs=5))
    case = {"kind": "server", "od": od, "source": draw(st.sampled_from(["code", "code", "dcf", "eds"]))}
    cur = {o["index"]: o for o in od}
    focus = draw(st.lists(st.sampled_from(sorted(cur)), min_size=1, max_size=2, unique=True))
    others = [e for e in entries(od) if e[0] not in focus]
    pool = {i: {0, 1, 2, draw(st.integers(3, 255))} | {m["sub"] for m in cur[i].get("members", [])} for i in focus}
    ops = []
    serial = [0]

    def spec_of(index, sub):
        o = cur.get(index)
        if o is None:
            return None
        if o["kind"] == "var":
            return o
        for m_ in o["members"]:
            if m_["sub"] == sub:
                return m_
        if o["kind"] == "array" and sub > 0:
            return next((m_ for m_ in o["members"] if m_["sub"] == 1), None)
        return None

    def access_op(index, sub):
        if cur.get(index, {}).get("kind") == "var":
            sub = 0      # (a top-level variable ignores the sub-index in this implementation: not "missing")
        if draw(st.integers(0, 2)) == 0:
            op = {"op": "upload", "index": index, "sub": sub}
            if draw(st.integers(0, 5)) == 0:
                op["blockinit"] = True
            return op
        sp = spec_of(index, sub)
        dt = sp["dt"] if sp else None
        if dt in rc.NUMERIC:
            n = rc.NUMERIC[dt] // 8 if draw(st.integers(0, 2)) else draw(st.integers(0, 9))
        else:
            n = draw(st.sampled_from([0, 1, 2, 4, 5, 8, 13]))
        styles = ["seg_size", "seg_nosize"] + (["exp", "exp", "exp"] if 1 <= n <= 4 else [])
        return {"op": "download", "index": index, "sub": sub, "data": draw(st.binary(min_size=n, max_size=n)),
                "style": draw(st.sampled_from(styles))}

    def new_object(index):
        serial[0] += 1
        tag = f"r{serial[0]}"
        kind = draw(st.sampled_from(["var", "var", "record", "array"]))
        if kind == "var":
            sp = draw(c02.var_spec(tag, 30))
            sp.update(kind="var", index=index)
            return sp
        subs = set(draw(st.lists(st.sampled_from(sorted(pool[index] - {0})), min_size=1, max_size=3)))
        if kind == "array":
            subs.add(1)
        members = [{"sub": 0, "name": tag + "n", "dt": rc.UNSIGNED8, "access": "ro", "default": len(subs)}]
        for s_ in sorted(subs):
            ms = draw(c02.var_spec(f"{tag}m{s_}", 30))
            ms["sub"] = s_
            members.append(ms)
        return {"kind": kind, "index": index, "name": tag, "members": members}

    for _phase in range(draw(st.integers(2, 5))):
        for _ in range(draw(st.integers(1, 5))):
            if others and draw(st.integers(0, 5)) == 0:
                e = draw(st.sampled_from(others))
                ops.append(access_op(e[0], e[1]))
            else:
                index = draw(st.sampled_from(focus))
                ops.append(access_op(index, draw(st.sampled_from(sorted(pool[index])))))
        index = draw(st.sampled_from(focus))
        o = cur.get(index)
        how = draw(st.sampled_from(["replace", "replace", "remove", "del_member", "set_access", "set_access"]))
        if o is None or how == "replace":
            sp = new_object(index)
            cur[index] = sp
            ops.append({"op": "replace", "index": index, "spec": sp})
        elif how == "remove":
            del cur[index]
            ops.append({"op": "replace", "index": index})
        elif how == "del_member" and o["kind"] == "record" and o["members"]:
            m_ = draw(st.sampled_from(o["members"]))
            cur[index] = dict(o, members=[x for x in o["members"] if x["sub"] != m_["sub"]])
            ops.append({"op": "del_member", "index": index, "sub": m_["sub"]})
        else:
            # access type of a listed entry; for an array preferably of the template (member 1)
            subs = [0] if o["kind"] == "var" else [x["sub"] for x in o["members"]]
            if not subs:
                continue
            sub = 1 if o["kind"] == "array" and 1 in subs and draw(st.booleans()) else draw(st.sampled_from(subs))
            acc = draw(st.sampled_from(["rw", "ro", "wo", "const"]))
            if o["kind"] == "var":
                cur[index] = dict(o, access=acc)
            else:
                cur[index] = dict(o, members=[dict(x, access=acc) if x["sub"] == sub else x for x in o["members"]])
            ops.append({"op": "set_access", "index": index, "sub": sub, "access": acc})
    for index in focus:
        for _ in range(draw(st.integers(1, 4))):
            ops.append(access_op(index, draw(st.sampled_from(sorted(pool[index])))))
    case["ops"] = ops
    return case


def decode_codes():
    from_doc = [0x05030000, 0x05040000, 0x05040001, 0x05040002, 0x05040003, 0x05040004, 0x05040005,
                0x06010000, 0x06010001, 0x06010002, 0x06020000, 0x06040041, 0x06040042, 0x06040043,
                0x06040047, 0x06060000, 0x06070010, 0x06070012, 0x06070013, 0x06090011, 0x06090030,
                0x06090031, 0x06090032, 0x06090036, 0x060A0023, 0x08000000, 0x08000020, 0x08000021,
                0x08000022, 0x08000023, 0x08000024]
    return from_doc + [0, 1, 0x80, 0x8000, 0x800000, 1 << 31, (1 << 32) - 1, 0x12345678, 0x80000000 | 0x05040001]


def decode_cases(codes):
    for code in codes:
        for n, style in ((3, "exp_size"), (4, "exp_nosize"), (9, "seg_size"), (20, "seg_nosize")):
            for k in range(0, 4):
                yield {"kind": "decode", "code": code, "where": "upload", "length": n, "style": style, "step": k}
        for n, force in ((2, False), (4, True), (15, False)):
            for k in range(0, 4):
                yield {"kind": "decode", "code": code, "where": "download", "length": n, "force": force, "step": k}
        for n in (5, 900):
            # block transfers: only the refusal of the initiate request is a C06 condition
            # ("unsupported command"); aborts in the middle of a block transfer belong to C07
            yield {"kind": "decode", "code": code, "where": "block_upload", "length": n, "step": 0}
            yield {"kind": "decode", "code": code, "where": "block_download", "length": n, "step": 0}


@st.composite
def client_api_case(draw):
    od = draw(c02.od_spec(40))
    ent = entries(od)
    used = {o["index"] for o in od}
    ops = []
    for _ in range(draw(st.integers(1, 8))):
        if draw(st.integers(0, 4)) == 0:
            index = draw(st.integers(0, 0xFFFF).filter(lambda v: v not in used))
            sub = draw(st.integers(0, 255))
            dt = None
        else:
            index, sub, spec, kind = draw(st.sampled_from(ent))
            dt = spec["dt"]
        if draw(st.booleans()):
            op = {"op": "upload", "index": index, "sub": sub}
            if draw(st.booleans()):
                op["via"] = "open"
                op["buffering"] = draw(st.sampled_from([0, 3, 1024]))
        else:
            if dt in rc.NUMERIC:
                n = rc.NUMERIC[dt] // 8 if draw(st.booleans()) else draw(st.integers(0, 9))
            else:
                n = draw(st.integers(0, 30))
            op = {"op": "download", "index": index, "sub": sub, "data": draw(st.binary(min_size=n, max_size=n)),
                  "force": draw(st.booleans())}
            if draw(st.booleans()):
                op["via"] = "open"
                op["buffering"] = draw(st.sampled_from([0, 3, 7, 1024]))
                op["size_decl"] = draw(st.booleans())
        ops.append(op)
    case = {"kind": "client_api", "od": od, "ops": ops}
    if draw(st.integers(0, 2)) == 0:
        # read callbacks registered on the local node, preferably in front of what the ops address
        touched = [e for e in ent if any((e[0], e[1]) == (o["index"], o["sub"]) for o in ops)] or ent
        ncb = draw(st.sampled_from([1, 2, 3]))
        cbs = []
        for (i, s_, spec, kind) in draw(st.lists(st.sampled_from(touched), min_size=1, max_size=3,
                                                 unique_by=lambda e: (e[0], e[1]))):
            how = draw(st.sampled_from(["typed", "bytes", "none"]))
            ret = None if how == "none" else draw(c02.typed_value(spec["dt"], 30) if how == "typed"
                                                  else st.binary(max_size=20))
            cbs.append({"index": i, "sub": s_, "ret": ret, "cb": draw(st.integers(0, ncb - 1))})
        case["read_cb"] = cbs
        case["read_cbs"] = ncb
    return case


def client_matrix():
    for dt in sorted(rc.NUMERIC):
        for access in ("rw", "ro", "wo", "const"):
            od = [{"kind": "var", "index": 0x2000, "name": "num", "dt": dt, "access": access,
                   "default": 1 if dt in rc.INTEGERS else 1.5},
                  {"kind": "var", "index": 0x2100, "name": "good", "dt": rc.DOMAIN, "default": b"0123456789"}]
            for n in range(0, 10):
                data = bytes(range(1, n + 1))
                for force in (False, True):
                    yield {"kind": "client_api", "od": od, "ops": [
                        {"op": "upload", "index": 0x2100, "sub": 0},
                        {"op": "download", "index": 0x2000, "sub": 0, "data": data, "force": force},
                        {"op": "upload", "index": 0x2000, "sub": 0},
                        {"op": "download", "index": 0x2000, "sub": 0, "data": data, "via": "open",
                         "buffering": 1024 if force else 0, "size_decl": True, "force": force},
                        {"op": "upload", "index": 0x2100, "sub": 0, "via": "open", "buffering": 0},
                        {"op": "upload", "index": 0x2222, "sub": 3}]}


def search(ctx):
    thorough = ctx.tier == "thorough"
    ctx.enumerate(refusal_matrix(), "numeric types x lengths 0..9 x access x style x placement; missing "
                                    "index/sub; toggle; unknown commands")
    ctx.enumerate(reshape_matrix(thorough), "dictionary re-shaped while serving: array template access changed after "
                                            "members were used; object used / removed / replaced by a different "
                                            "one; record member removed")
    ctx.enumerate(client_matrix(), "client API: numeric types x lengths 0..9 x access x forced segmentation")
    ctx.enumerate(decode_cases(decode_codes()), "documented + boundary abort codes x protocol step")
    ctx.hypothesis(c02.history(200, refusal_bias=True).map(lambda c: dict(c, kind="server")),
                   10000 if thorough else 1000, salt=1)
    ctx.hypothesis(client_api_case(), 8000 if thorough else 800, salt=2)
    ctx.hypothesis(reshape_history(), 4000 if thorough else 400, salt=4)
    codes = st.integers(0, (1 << 32) - 1)
    ctx.hypothesis(st.builds(
        lambda code, where, n, k, style: {"kind": "decode", "code": code, "where": where, "length": n,
                                          "step": 0 if where.startswith("block") else k, "style": style,
                                          "force": n % 2 == 0},
        codes, st.sampled_from(["upload", "download", "block_upload", "block_download"]),
        st.integers(1, 40), st.integers(0, 5), st.sampled_from(["seg_size", "seg_nosize", "exp_size"])),
        8000 if thorough else 800, salt=3)
