"""C06 - refused SDO accesses report the standard abort code and change nothing.

Three drivers (case["kind"]):
  server      frame-level reference client against LocalNode/SdoServer (shares the
              C02 interpreter, generator biased to refusals): abort code set per
              condition, multiplexer of the transfer, store/callbacks unchanged
  client_api  the same refusals through RemoteNode.sdo upload()/download()/open()
              against the library's own server on a second network: the raised
              SdoAbortedError.code must equal the code on the wire, exactly one
              abort frame is on the wire, nothing follows it
  decode      the client against a scripted peer that aborts with a chosen code
              at a chosen protocol step: SdoAbortedError.code == code sent
"""
import struct

from hypothesis import strategies as st

from harness import c02
from harness import refcodec as rc
from harness.core import Discrepancy, Outcome
from harness.odutil import build_od, entries
from harness.refsdo import RefSdoServer
from harness.simbus import Frame, Hub

PROPERTY = "C06"
LEVEL = "exploration"
RULE = ("three drivers: (server) C02-style histories on a fresh LocalNode biased to refusals - wo reads, "
        "ro/const writes, missing index, missing record sub-index, numeric types x payload lengths 0..9 "
        "(expedited, segmented with/without size), entries without value, wrong toggle, ccs 7, block "
        "download, and the access type of an entry changed by the application while serving (every ordered "
        "pair of rw/ro/wo/const) - placed before/between/after successful transfers; read callbacks "
        "(returning a typed value / bytes / None, 1..3 registered) in front of write-only entries, entries "
        "without value and missing sub-indexes (variable, record member, listed and template-described array "
        "member; normal and block-upload initiate); a wrong-toggle segment - non-last and LAST with 0..7 "
        "payload bytes - sent into an open transfer after 0..2 good segments (the last one would otherwise "
        "complete a valid / a refused write); ccs 7 in the middle of an open transfer (abort must name the "
        "transfer or echo bytes 1..3); too-short payloads accept 0607 0010/0013, too-long ones 0607 0010/0012; "
        "(client_api) the same refusals "
        "through RemoteNode.sdo against the library's server, comparing the raised code with the abort "
        "frame on the wire; (decode) a scripted peer aborting with codes {all documented, 0, 1, 2^31, "
        "2^32-1, random} at every protocol step. Oracle: table condition -> CiA 301 code set, "
        "multiplexer of the transfer, store and callback log unchanged. Non-trivial = a refusal "
        "actually occurred; distinct = canonical JSON.")
ASSUMPTIONS = c02.ASSUMPTIONS + [
    "when several refusal conditions apply to one request any of their codes is accepted",
    "block upload is legally downgraded, so only block download counts as unsupported",
]
BUDGET = {"quick": 150, "thorough": 420}

NODE = c02.NODE


class _ExcRecord:
    """What the judgement needs of an exception, without the exception object (and the frames its
    traceback keeps alive)."""

    def __init__(self, e):
        from canopen.sdo.exceptions import SdoAbortedError
        self.name = type(e).__name__
        self.text = str(e)[:200]
        self.is_abort = isinstance(e, SdoAbortedError)
        self.code = getattr(e, "code", None)


def run_case(case) -> Outcome:
    kind = case.get("kind", "server")
    if kind == "server":
        out, feats = c02.run_history(case, "C06")
        out.nontrivial = bool(feats & {"refused-read", "refused-write", "unknown-command", "refused-toggle"})
        out.klass = "server/" + out.klass
        return out
    if kind == "client_api":
        return run_client_api(case)
    return run_decode(case)


# ---- driver 2 -----------------------------------------------------------------
def run_client_api(case):
    import canopen
    from canopen.sdo import SdoAbortedError
    hub = Hub()
    net_s, port_s = hub.attach("server")
    net_c, port_c = hub.attach("client")
    od_s = build_od(case["od"])
    od_c = build_od(case["od"])
    local = canopen.LocalNode(NODE, od_s)
    net_s.add_node(local)
    remote = canopen.RemoteNode(NODE, od_c)
    net_c.add_node(remote)
    remote.sdo.RESPONSE_TIMEOUT = 0.05
    wlog = []
    local.add_write_callback(lambda **kw: wlog.append((kw["index"], kw["subindex"], bytes(kw["data"]))))
    rcb = {(r["index"], r["sub"]): r for r in case.get("read_cb", [])}
    ncb = case.get("read_cbs") or (1 if rcb else 0)

    def make_rcb(k):
        def cb(**kw):
            r = rcb.get((kw["index"], kw["subindex"]))
            if r is None or r.get("cb", 0) % ncb != k:
                return None
            return r["ret"]
        return cb
    for k in range(ncb):
        local.add_read_callback(make_rcb(k))
    m = c02.Model(case)
    D = []
    refusals = 0

    def bad(kind, detail):
        D.append(Discrepancy(f"C06/client/{kind}", detail))

    for n, op in enumerate(case["ops"]):
        index, sub = op["index"], op["sub"]
        tag = f"step {n} {op['op']} {index:04x}:{sub:02x}"
        mark_s, mark_c = len(port_s.sent), len(port_c.sent)
        before = c02._store_snapshot(local)
        wl = len(wlog)
        exc = None
        result = None
        try:
            if op["op"] == "upload":
                exp = m.expected_read(index, sub)
                if op.get("via") == "open":
                    with remote.sdo.open(index, sub, "rb", buffering=op.get("buffering", 0),
                                         block_transfer=bool(op.get("block"))) as fp:
                        result = fp.read()
                else:
                    result = remote.sdo.upload(index, sub)
            else:
                data = bytes(op["data"])
                exp = m.expected_write(index, sub, data)
                if op.get("via") == "open":
                    with remote.sdo.open(index, sub, "wb", buffering=op.get("buffering", 0),
                                         size=len(data) if op.get("size_decl", True) else None,
                                         force_segment=op.get("force", False)) as fp:
                        pos = 0
                        while pos < len(data):
                            k = fp.write(data[pos:])
                            pos += k if k else len(data)
                else:
                    remote.sdo.download(index, sub, data, force_segment=op.get("force", False))
        except SdoAbortedError as e:
            exc = _ExcRecord(e)
        except Exception as e:  # any other exception type
            exc = _ExcRecord(e)
        # (only a record of the exception is kept: the exception object would keep the library's stream
        #  object alive through its traceback, and whatever its finaliser does would land in a later step)
        aborts = [f for f in port_s.sent[mark_s:] if f.can_id == 0x580 + NODE and f.data[:1] == b"\x80"]
        if exp[0] == "skip":
            if op["op"] == "download":
                m.taint.add(m.key(index, sub))
            continue
        if exp[0] == "ok":
            if exc is not None:
                bad("valid-access-raised", f"{tag}: {exc.name}: {exc.text}")
            elif op["op"] == "download":
                m.store[m.key(index, sub)] = bytes(op["data"])
                m.taint.discard(m.key(index, sub))
        else:
            refusals += 1
            if exc is None:
                bad("no-exception", f"{tag}: refused access returned normally ({result!r})")
            elif not exc.is_abort:
                bad("wrong-exception", f"{tag}: raised {exc.name}: {exc.text} instead of SdoAbortedError")
            else:
                if not aborts:
                    bad("no-abort-frame", f"{tag}: SdoAbortedError({exc.code:08x}) but no abort frame on the wire")
                else:
                    # the abort frame this call received: the first one of this step with the code raised
                    # (further frames - e.g. what a stream finaliser of the library provokes afterwards -
                    # are not the answer to the refused access and not the property's subject)
                    codes = [struct.unpack_from("<L", f.data, 4)[0] for f in aborts]
                    if exc.code not in codes:
                        bad("code-differs-from-wire", f"{tag}: raised code {exc.code:08x}, abort frames "
                                                      f"carried {[hex(c) for c in codes]}")
                    else:
                        own = aborts[codes.index(exc.code)]
                        if exc.code not in exp[1]:
                            bad("abort-code", f"{tag}: code {exc.code:08x} not in {sorted(hex(c) for c in exp[1])}")
                        if struct.unpack_from("<HB", own.data, 1) != (index, sub):
                            bad("abort-mux", f"{tag}: abort frame {own.data.hex()} does not carry the "
                                             f"multiplexer of the transfer")
            if op["op"] == "download":
                if c02._store_snapshot(local) != before:
                    bad("refused-write-changed-store", tag)
                if len(wlog) != wl:
                    bad("refused-write-callback", tag)
        if D:
            break
    return Outcome(refusals > 0, f"client_api/{'refusal' if refusals else 'plain'}", D)


# ---- driver 3 -----------------------------------------------------------------
def run_decode(case):
    import canopen
    from canopen.sdo import SdoAbortedError
    code = case["code"]
    where = case["where"]
    n = case["length"]
    hub = Hub()
    server = RefSdoServer(0x600 + NODE, 0x580 + NODE)
    server.attach(hub)
    net, port = hub.attach("client")
    node = canopen.RemoteNode(NODE, build_od([]))
    net.add_node(node)
    node.sdo.RESPONSE_TIMEOUT = 0.05
    data = bytes((i % 251) + 1 for i in range(n))
    server.store[(0x2000, 1)] = data
    server.upload_style = lambda i, s, d: case.get("style")
    k = case.get("step", 0)
    count = {"n": 0}
    abort_frame = struct.pack("<BHBL", 0x80, 0x2000, 1, code)

    def flt(fr, h):
        if fr.can_id == 0x580 + NODE:
            if count["n"] == k:
                count["n"] += 1
                return [Frame(fr.can_id, abort_frame, ts=fr.ts, src=fr.src)]
            count["n"] += 1
        return [fr]

    hub.filter = flt
    D = []
    exc = None
    try:
        if where == "upload":
            node.sdo.upload(0x2000, 1)
        elif where == "download":
            node.sdo.download(0x2000, 1, data, force_segment=case.get("force", False))
        elif where == "block_upload":
            with node.sdo.open(0x2000, 1, "rb", block_transfer=True) as fp:
                fp.read()
        else:
            with node.sdo.open(0x2000, 1, "wb", size=n, block_transfer=True) as fp:
                fp.write(data)
    except Exception as e:
        exc = e
    hit = count["n"] > k
    if not hit:
        return Outcome(excluded="abort step beyond the end of the transfer")
    if not isinstance(exc, SdoAbortedError):
        D.append(Discrepancy("C06/decode/not-raised", f"abort {code:08x} at response {k} of {where} "
                             f"({n} bytes): outcome {type(exc).__name__ if exc else 'normal return'}: {exc}"))
    elif exc.code != code:
        D.append(Discrepancy("C06/decode/code", f"abort {code:08x} at response {k} of {where} ({n} bytes) "
                             f"raised code {exc.code:08x}"))
    return Outcome(True, f"decode/{where}/step{min(k, 3)}", D)


# ---- generation -----------------------------------------------------------------
def refusal_matrix():
    """Numeric types x payload lengths 0..9 x access types x styles, and the
    other refusal kinds, each surrounded by successful transfers."""
    good = {"kind": "var", "index": 0x2100, "name": "good", "dt": rc.DOMAIN, "access": "rw",
            "default": b"0123456789"}
    ok_before = {"op": "upload", "index": 0x2100, "sub": 0}
    ok_after = {"op": "download", "index": 0x2100, "sub": 0, "data": b"abcdefghijk", "style": "seg_size"}
    for dt in sorted(rc.NUMERIC):
        for access in ("rw", "ro", "wo", "const", "rwr", "rww"):
            od = [good, {"kind": "var", "index": 0x2000, "name": "num", "dt": dt, "access": access,
                         "default": 1 if dt in rc.INTEGERS else 1.5},
                  {"kind": "record", "index": 0x2001, "name": "rec", "members": [
                      {"sub": 0, "name": "n", "dt": rc.UNSIGNED8, "access": "ro", "default": 2},
                      {"sub": 2, "name": "m", "dt": dt, "access": access}]}]
            for n in range(0, 10):
                data = bytes(range(1, n + 1))
                styles = ["seg_size", "seg_nosize"] + (["exp"] if 1 <= n <= 4 else []) + \
                         (["exp_nosize"] if n == 4 else [])
                for stl in styles:
                    for (index, sub) in ((0x2000, 0), (0x2001, 2)):
                        for place in ("first", "between"):
                            ops = [] if place == "first" else [ok_before]
                            ops += [{"op": "download", "index": index, "sub": sub, "data": data, "style": stl},
                                    {"op": "upload", "index": index, "sub": sub}, ok_after,
                                    {"op": "upload", "index": 0x2100, "sub": 0}]
                            yield {"kind": "server", "od": od, "ops": ops}
    # the access type of an entry changes while the node is serving: every ordered pair
    for dt in (rc.UNSIGNED16, rc.DOMAIN):
        d_ok = b"\x34\x12" if dt == rc.UNSIGNED16 else b"0123456789abc"
        stl = "exp" if dt == rc.UNSIGNED16 else "seg_size"
        for a in ("rw", "ro", "wo", "const"):
            for b in ("rw", "ro", "wo", "const"):
                if a == b:
                    continue
                od = [good, {"kind": "var", "index": 0x2000, "name": "num", "dt": dt, "access": a,
                             "default": 7 if dt == rc.UNSIGNED16 else b"dflt"},
                      {"kind": "record", "index": 0x2001, "name": "rec", "members": [
                          {"sub": 0, "name": "n", "dt": rc.UNSIGNED8, "access": "ro", "default": 2},
                          {"sub": 2, "name": "m", "dt": dt, "access": a,
                           "default": 9 if dt == rc.UNSIGNED16 else b"member"}]}]
                for (index, sub) in ((0x2000, 0), (0x2001, 2)):
                    yield {"kind": "server", "od": od, "ops": [
                        {"op": "upload", "index": index, "sub": sub},
                        {"op": "download", "index": index, "sub": sub, "data": d_ok, "style": stl},
                        {"op": "set_access", "index": index, "sub": sub, "access": b},
                        {"op": "upload", "index": index, "sub": sub},
                        {"op": "download", "index": index, "sub": sub, "data": d_ok[::-1], "style": stl},
                        {"op": "upload", "index": index, "sub": sub},
                        {"op": "set_access", "index": index, "sub": sub, "access": a},
                        {"op": "download", "index": index, "sub": sub, "data": d_ok, "style": stl},
                        {"op": "upload", "index": index, "sub": sub}, ok_after]}
    # arrays: listed and template-described members under every access type
    for access in ("rw", "ro", "wo", "const"):
        for dt in (rc.UNSIGNED16, rc.INTEGER24, rc.DOMAIN):
            od = [good, {"kind": "array", "index": 0x2200, "name": "arr", "members": [
                {"sub": 0, "name": "n", "dt": rc.UNSIGNED8, "access": "ro", "default": 8},
                {"sub": 1, "name": "el", "dt": dt, "access": access,
                 "default": 7 if dt in rc.INTEGERS else b"default-bytes"},
                {"sub": 3, "name": "el3", "dt": dt, "access": access}]}]
            for sub in (1, 2, 3, 6, 255):
                for data, stl in ((b"\x01\x02", "exp"), (b"\x01\x02\x03", "seg_size"), (b"123456789", "seg_nosize")):
                    yield {"kind": "server", "od": od, "ops": [
                        ok_before, {"op": "upload", "index": 0x2200, "sub": sub},
                        {"op": "download", "index": 0x2200, "sub": sub, "data": data, "style": stl},
                        {"op": "upload", "index": 0x2200, "sub": sub}, ok_after]}
                yield {"kind": "client_api", "od": od, "ops": [
                    {"op": "upload", "index": 0x2200, "sub": sub},
                    {"op": "download", "index": 0x2200, "sub": sub, "data": b"\x05\x06", "force": False},
                    {"op": "download", "index": 0x2200, "sub": sub, "data": b"\x05\x06\x07", "force": True},
                    {"op": "upload", "index": 0x2100, "sub": 0}]}
    od = [good, {"kind": "record", "index": 0x2001, "name": "rec", "members": [
        {"sub": 0, "name": "n", "dt": rc.UNSIGNED8, "access": "ro", "default": 2},
        {"sub": 2, "name": "m", "dt": rc.UNSIGNED16, "access": "rw"}]}]
    for index in (0x0000, 0x0001, 0x1000, 0x2002, 0x20FF, 0x2101, 0xFFFF):
        for sub in (0, 1, 255):
            for first in (True, False):
                yield {"kind": "server", "od": od, "ops":
                       ([] if first else [ok_before]) +
                       [{"op": "upload", "index": index, "sub": sub},
                        {"op": "download", "index": index, "sub": sub, "data": b"\x01\x02", "style": "exp"},
                        {"op": "download", "index": index, "sub": sub, "data": b"123456789", "style": "seg_size"},
                        ok_after]}
    for sub in (1, 3, 4, 100, 255):
        yield {"kind": "server", "od": od, "ops": [
            ok_before, {"op": "upload", "index": 0x2001, "sub": sub},
            {"op": "download", "index": 0x2001, "sub": sub, "data": b"\x01\x02", "style": "exp"},
            {"op": "download", "index": 0x2001, "sub": sub, "data": b"\x01\x02", "style": "seg_nosize"}, ok_after]}
    # a record / an array that is present but has no members at all: every sub-index is a missing one
    od_empty = [good, {"kind": "record", "index": 0x2001, "name": "rec", "members": []},
                {"kind": "array", "index": 0x2200, "name": "arr", "members": []}]
    for index in (0x2001, 0x2200):
        for sub in (0, 1, 2, 255):
            yield {"kind": "server", "od": od_empty, "ops": [
                ok_before, {"op": "upload", "index": index, "sub": sub},
                {"op": "download", "index": index, "sub": sub, "data": b"\x01\x02", "style": "exp"},
                {"op": "download", "index": index, "sub": sub, "data": b"123456789", "style": "seg_size"}, ok_after]}
            yield {"kind": "client_api", "od": od_empty, "ops": [
                {"op": "upload", "index": index, "sub": sub},
                {"op": "download", "index": index, "sub": sub, "data": b"\x01\x02", "force": False}]}
    # wrong toggle in both directions, as first segment and later
    for first in (True, False):
        pre = [] if first else [ok_before]
        yield {"kind": "server", "od": od, "ops": pre + [
            {"op": "upload", "index": 0x2100, "sub": 0, "stop_after": 0},
            {"op": "toggle", "dir": "up", "t": 1}, ok_after]}
        yield {"kind": "server", "od": od, "ops": pre + [
            {"op": "upload", "index": 0x2100, "sub": 0, "stop_after": 1},
            {"op": "toggle", "dir": "up", "t": 0}, ok_after]}
        yield {"kind": "server", "od": od, "ops": pre + [
            {"op": "download", "index": 0x2100, "sub": 0, "data": b"x" * 30, "style": "seg_size", "stop_after": 0},
            {"op": "toggle", "dir": "down", "t": 1}, {"op": "upload", "index": 0x2100, "sub": 0}]}
        yield {"kind": "server", "od": od, "ops": pre + [
            {"op": "download", "index": 0x2100, "sub": 0, "data": b"x" * 30, "style": "seg_nosize", "stop_after": 1},
            {"op": "toggle", "dir": "down", "t": 0}, {"op": "upload", "index": 0x2100, "sub": 0}]}
    # a segment with the wrong toggle bit sent into an open download after k good segments: not the last
    # one / flagged as the last one with 0..7 payload bytes (with the right toggle it would complete a
    # valid write, or one that is refused anyway); into an open upload after k segments
    od_t = od + [{"kind": "var", "index": 0x2101, "name": "long", "dt": rc.DOMAIN, "access": "rw",
                  "default": b"0123456789abcdefghijklmnopqrstuvwxyz"},
                 {"kind": "var", "index": 0x2102, "name": "u32", "dt": rc.UNSIGNED32, "access": "rw", "default": 5},
                 {"kind": "var", "index": 0x2103, "name": "locked", "dt": rc.DOMAIN, "access": "ro",
                  "default": b"read-only"}]
    for first in (True, False):
        pre = [] if first else [ok_before]
        for k in (0, 1, 2, 3):
            yield {"kind": "server", "od": od_t, "ops": pre + [
                {"op": "upload", "index": 0x2101, "sub": 0, "stop_after": k},
                {"op": "toggle", "dir": "up"}, {"op": "upload", "index": 0x2101, "sub": 0}, ok_after]}
        for stl in ("seg_size", "seg_nosize"):
            for k in (0, 1, 2):
                for payload in (None, b"", b"x", b"xyz", b"abcdefg"):
                    tg = {"op": "toggle", "dir": "down"}
                    if payload is not None:
                        tg.update(last=True, payload=payload)
                    for index, data in ((0x2101, b"ABCDEFGHIJKLMNOPQRSTUVWXYZ"), (0x2103, b"ABCDEFGHIJKLMNOPQRSTUVWXYZ")):
                        yield {"kind": "server", "od": od_t, "ops": pre + [
                            {"op": "download", "index": index, "sub": 0, "data": data, "style": stl, "stop_after": k},
                            tg, {"op": "upload", "index": index, "sub": 0}, ok_after,
                            {"op": "upload", "index": index, "sub": 0}]}
            # numeric entries: the wrong-toggle last segment carries exactly / not exactly the entry's size
            for index, sub, width in ((0x2102, 0, 4), (0x2001, 2, 2), (0x2001, 0, 1)):
                for n in (0, width, width + 1):
                    yield {"kind": "server", "od": od_t, "ops": pre + [
                        {"op": "download", "index": index, "sub": sub, "data": bytes(range(1, n + 1)), "style": stl,
                         "stop_after": 0},
                        {"op": "toggle", "dir": "down", "last": True, "payload": bytes(range(1, n + 1))},
                        {"op": "upload", "index": index, "sub": sub}, ok_after]}
    # an unknown command in the middle of an open transfer: the abort names that transfer (or echoes
    # bytes 1..3 of the frame)
    for b0 in (0xE0, 0xE1, 0xF3, 0xFF):
        for tail in (struct.pack("<HB", 0x2001, 2) + bytes([9, 0, 0, 0]), bytes([0xFF] * 7), bytes(7)):
            for k in (0, 1):
                for opn in ({"op": "upload", "index": 0x2101, "sub": 0, "stop_after": k},
                            {"op": "download", "index": 0x2101, "sub": 0, "data": b"ABCDEFGHIJKLMNOPQRSTUVWXYZ",
                             "style": "seg_size", "stop_after": k}):
                    yield {"kind": "server", "od": od_t, "ops": [
                        ok_before, opn, {"op": "junk", "frame": bytes([b0]) + tail}, ok_after,
                        {"op": "upload", "index": 0x2101, "sub": 0}]}
    # read callbacks in front of entries that must not / cannot be read: a callback does not make a
    # write-only entry readable, nor a missing index / sub-index exist; a callback returning None leaves
    # an entry without value without value
    od_cb = [good,
             {"kind": "var", "index": 0x2000, "name": "cmd", "dt": rc.UNSIGNED16, "access": "wo", "default": 7},
             {"kind": "record", "index": 0x2001, "name": "rec", "members": [
                 {"sub": 0, "name": "n", "dt": rc.UNSIGNED8, "access": "ro", "default": 2},
                 {"sub": 2, "name": "m", "dt": rc.UNSIGNED16, "access": "wo"}]},
             {"kind": "array", "index": 0x2200, "name": "arr", "members": [
                 {"sub": 0, "name": "n", "dt": rc.UNSIGNED8, "access": "ro", "default": 8},
                 {"sub": 1, "name": "el", "dt": rc.DOMAIN, "access": "wo", "default": b"default-bytes"},
                 {"sub": 3, "name": "el3", "dt": rc.DOMAIN, "access": "wo"}]},
             {"kind": "var", "index": 0x2300, "name": "empty", "dt": rc.UNSIGNED16, "access": "rw"},
             {"kind": "record", "index": 0x2301, "name": "rec2", "members": [
                 {"sub": 0, "name": "n", "dt": rc.UNSIGNED8, "access": "ro", "default": 1},
                 {"sub": 1, "name": "m", "dt": rc.DOMAIN, "access": "ro"}]}]
    targets = [(0x2000, 0, rc.UNSIGNED16, True), (0x2001, 2, rc.UNSIGNED16, True), (0x2200, 1, rc.DOMAIN, True),
               (0x2200, 3, rc.DOMAIN, True), (0x2200, 6, rc.DOMAIN, True), (0x2300, 0, rc.UNSIGNED16, False),
               (0x2301, 1, rc.DOMAIN, False), (0x2001, 5, rc.UNSIGNED16, False), (0x2999, 0, rc.UNSIGNED16, False)]
    for index, sub, dt, wo in targets:
        for how in ("typed", "bytes", "none"):
            if how == "none":
                ret = None
            elif dt == rc.UNSIGNED16:
                ret = 0x1234 if how == "typed" else b"\x34\x12"
            else:
                ret = b"live" if how == "typed" else b"live-value-0123456789"
            for ncb in (1, 2, 3):
                for cb in range(ncb):
                    cbs = {"read_cb": [{"index": index, "sub": sub, "ret": ret, "cb": cb},
                                       {"index": 0x2100, "sub": 0, "ret": None, "cb": (cb + 1) % ncb}],
                           "read_cbs": ncb}
                    yield dict(cbs, kind="server", od=od_cb, ops=[
                        {"op": "upload", "index": index, "sub": sub},
                        {"op": "upload", "index": index, "sub": sub, "blockinit": True},
                        {"op": "upload", "index": index, "sub": sub, "stop_after": 1},
                        ok_before, ok_after, {"op": "upload", "index": index, "sub": sub}])
                    ops = [{"op": "upload", "index": index, "sub": sub},
                           {"op": "upload", "index": index, "sub": sub, "via": "open", "buffering": 0},
                           {"op": "upload", "index": 0x2100, "sub": 0}]
                    if wo:
                        ops.insert(2, {"op": "upload", "index": index, "sub": sub, "via": "open", "buffering": 0,
                                       "block": True})
                    yield dict(cbs, kind="client_api", od=od_cb, ops=ops)
    # unknown / unsupported commands
    for b0 in list(range(0xE0, 0x100)) + [0xC0, 0xC2, 0xC4, 0xC6]:
        for first in (True, False):
            fr = bytes([b0]) + struct.pack("<HB", 0x2001, 2) + bytes([9, 0, 0, 0])
            yield {"kind": "server", "od": od, "ops": ([] if first else [ok_before]) + [
                {"op": "junk", "frame": fr}, ok_after, {"op": "upload", "index": 0x2100, "sub": 0}]}


def decode_codes():
    from_doc = [0x05030000, 0x05040000, 0x05040001, 0x05040002, 0x05040003, 0x05040004, 0x05040005,
                0x06010000, 0x06010001, 0x06010002, 0x06020000, 0x06040041, 0x06040042, 0x06040043,
                0x06040047, 0x06060000, 0x06070010, 0x06070012, 0x06070013, 0x06090011, 0x06090030,
                0x06090031, 0x06090032, 0x06090036, 0x060A0023, 0x08000000, 0x08000020, 0x08000021,
                0x08000022, 0x08000023, 0x08000024]
    return from_doc + [0, 1, 0x80, 0x8000, 0x800000, 1 << 31, (1 << 32) - 1, 0x12345678, 0x80000000 | 0x05040001]


def decode_cases(codes):
    for code in codes:
        for n, style in ((3, "exp_size"), (4, "exp_nosize"), (9, "seg_size"), (20, "seg_nosize")):
            for k in range(0, 4):
                yield {"kind": "decode", "code": code, "where": "upload", "length": n, "style": style, "step": k}
        for n, force in ((2, False), (4, True), (15, False)):
            for k in range(0, 4):
                yield {"kind": "decode", "code": code, "where": "download", "length": n, "force": force, "step": k}
        for n in (5, 900):
            # block transfers: only the refusal of the initiate request is a C06 condition
            # ("unsupported command"); aborts in the middle of a block transfer belong to C07
            yield {"kind": "decode", "code": code, "where": "block_upload", "length": n, "step": 0}
            yield {"kind": "decode", "code": code, "where": "block_download", "length": n, "step": 0}


@st.composite
def client_api_case(draw):
    od = draw(c02.od_spec(40))
    ent = entries(od)
    used = {o["index"] for o in od}
    ops = []
    for _ in range(draw(st.integers(1, 8))):
        if draw(st.integers(0, 4)) == 0:
            index = draw(st.integers(0, 0xFFFF).filter(lambda v: v not in used))
            sub = draw(st.integers(0, 255))
            dt = None
        else:
            index, sub, spec, kind = draw(st.sampled_from(ent))
            dt = spec["dt"]
        if draw(st.booleans()):
            op = {"op": "upload", "index": index, "sub": sub}
            if draw(st.booleans()):
                op["via"] = "open"
                op["buffering"] = draw(st.sampled_from([0, 3, 1024]))
        else:
            if dt in rc.NUMERIC:
                n = rc.NUMERIC[dt] // 8 if draw(st.booleans()) else draw(st.integers(0, 9))
            else:
                n = draw(st.integers(0, 30))
            op = {"op": "download", "index": index, "sub": sub, "data": draw(st.binary(min_size=n, max_size=n)),
                  "force": draw(st.booleans())}
            if draw(st.booleans()):
                op["via"] = "open"
                op["buffering"] = draw(st.sampled_from([0, 3, 7, 1024]))
                op["size_decl"] = draw(st.booleans())
        ops.append(op)
    case = {"kind": "client_api", "od": od, "ops": ops}
    if draw(st.integers(0, 2)) == 0:
        # read callbacks registered on the local node, preferably in front of what the ops address
        touched = [e for e in ent if any((e[0], e[1]) == (o["index"], o["sub"]) for o in ops)] or ent
        ncb = draw(st.sampled_from([1, 2, 3]))
        cbs = []
        for (i, s_, spec, kind) in draw(st.lists(st.sampled_from(touched), min_size=1, max_size=3,
                                                 unique_by=lambda e: (e[0], e[1]))):
            how = draw(st.sampled_from(["typed", "bytes", "none"]))
            ret = None if how == "none" else draw(c02.typed_value(spec["dt"], 30) if how == "typed"
                                                  else st.binary(max_size=20))
            cbs.append({"index": i, "sub": s_, "ret": ret, "cb": draw(st.integers(0, ncb - 1))})
        case["read_cb"] = cbs
        case["read_cbs"] = ncb
    return case


def client_matrix():
    for dt in sorted(rc.NUMERIC):
        for access in ("rw", "ro", "wo", "const"):
            od = [{"kind": "var", "index": 0x2000, "name": "num", "dt": dt, "access": access,
                   "default": 1 if dt in rc.INTEGERS else 1.5},
                  {"kind": "var", "index": 0x2100, "name": "good", "dt": rc.DOMAIN, "default": b"0123456789"}]
            for n in range(0, 10):
                data = bytes(range(1, n + 1))
                for force in (False, True):
                    yield {"kind": "client_api", "od": od, "ops": [
                        {"op": "upload", "index": 0x2100, "sub": 0},
                        {"op": "download", "index": 0x2000, "sub": 0, "data": data, "force": force},
                        {"op": "upload", "index": 0x2000, "sub": 0},
                        {"op": "download", "index": 0x2000, "sub": 0, "data": data, "via": "open",
                         "buffering": 1024 if force else 0, "size_decl": True, "force": force},
                        {"op": "upload", "index": 0x2100, "sub": 0, "via": "open", "buffering": 0},
                        {"op": "upload", "index": 0x2222, "sub": 3}]}


def search(ctx):
    thorough = ctx.tier == "thorough"
    ctx.enumerate(refusal_matrix(), "numeric types x lengths 0..9 x access x style x placement; missing "
                                    "index/sub; toggle; unknown commands")
    ctx.enumerate(client_matrix(), "client API: numeric types x lengths 0..9 x access x forced segmentation")
    ctx.enumerate(decode_cases(decode_codes()), "documented + boundary abort codes x protocol step")
    ctx.hypothesis(c02.history(200, refusal_bias=True).map(lambda c: dict(c, kind="server")),
                   10000 if thorough else 1000, salt=1)
    ctx.hypothesis(client_api_case(), 8000 if thorough else 800, salt=2)
    codes = st.integers(0, (1 << 32) - 1)
    ctx.hypothesis(st.builds(
        lambda code, where, n, k, style: {"kind": "decode", "code": code, "where": where, "length": n,
                                          "step": 0 if where.startswith("block") else k, "style": style,
                                          "force": n % 2 == 0},
        codes, st.sampled_from(["upload", "download", "block_upload", "block_download"]),
        st.integers(1, 40), st.integers(0, 5), st.sampled_from(["seg_size", "seg_nosize", "exp_size"])),
        8000 if thorough else 800, salt=3)
