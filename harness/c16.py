"""C16 - the EMCY consumer's log and active list mirror the received history.

SUT: canopen.emcy.EmcyConsumer (on_emcy, add_callback, reset, wait),
EmcyProducer (send, reset), EmcyError (get_desc, str), reached both directly
and through LocalNode.emcy -> simulated bus -> RemoteNode.emcy.

Clause -> case family
  (a) "log holds one entry per frame in arrival order with code, register,
      five manufacturer bytes and timestamp"
        history/* (after every step the whole log is compared with a list
        model; frames are decoded by hand from the 8 bytes), code/* (every one
        of the 65 536 codes is decoded once), interleave/*.
        interleave-rtr/*, history/*/rtr, wait-seq/*/rtr: "one entry per (emergency) frame"
        also means no entry for anything else: a remote frame or an error frame with
        the node's EMCY COB-ID (delivered through the library's own can.Listener) is
        not an emergency frame; log, active list and callbacks stay as they are and a
        waiting caller is not handed anything.
  (b) "active list holds exactly the entries received since the last
      error-reset frame"
        interleave/* (every sequence up to length 4..6 over two errors, two
        resets 0x0000/0x00FF and the near-reset 0x0100), code/* (reset
        classification of every 16-bit code between two errors), history/*.
  (c) "every registered callback is invoked once per frame in order"
        history/* and interleave/* with add_callback ops anywhere in the
        history; the global invocation record (callback id, entry fields) is
        compared after every step.
  (d) "a waiting caller is handed the next matching entry or nothing on
      time-out"
        wait/*: a waiter thread calls wait() with/without a code filter (incl.
        filter 0) after a generated pre-history; the main thread feeds
        generated frames one wake-up at a time (or several at once while the
        waiter cannot run) and silence.
        wait-seq/*: one to three consecutive wait() calls on the SAME consumer
        of a two-node rig whose condition object is observed, not replaced;
        frames arrive between the calls (nobody waits), during them, for the
        other node and on foreign COB-IDs; timed members: the matching frame
        arrives 0.3 s .. a few seconds after the caller blocked, silence with
        a time-out of 0.25 s .. a few seconds, and non-matching traffic that
        goes on far beyond the time-out.
        wait-seq/*/paced: the frames of one filtered wait arrive at separate moments of
        real time (two to six non-matching ones, then the matching one at about 0.6 of
        a 2..5 s time-out; 70 non-matching ones 20 ms apart, then the matching one,
        against 20 s; only non-matching ones): the matching entry is handed over, and
        nothing is reported before 0.8 of the time-out has passed.
        wait-multi/*: 2..4 callers with different filters, started at different
        points of a frame sequence, each handed its own next matching entry.
      long/*: "any sequence": 300 .. 20 000 (thorough 70 000) frames on two consumers (sparse or
        no reset frames), counts compared after every frame, the lists in full
        at checkpoints.
  (e) "a message sent by the producer is decoded by the consumer into the same
      code, register and data (zero-padded to five bytes)"
        roundtrip/* (all registers x all data lengths 0..5, send and reset with
        every default-argument form) and send/preset ops inside history/bus;
        the frame on the wire is additionally compared with a hand encoding
        (COB-ID 0x80+node, 8 bytes, little-endian code).
  (f) "every code maps to its CiA 301 error class description"
        code/*: all 65 536 codes against an independent table of the CiA 301
        emergency error classes (keyword relation, see _check_desc).
"""
import queue
import threading
import time

from hypothesis import strategies as st

from harness.core import Discrepancy, Outcome
from harness.simbus import Frame, Hub

PROPERTY = "C16"
LEVEL = "exploration"
RULE = ("case kinds: code (one per 16-bit code, exhaustive: description relation + decode + reset "
        "classification between two errors), interleave (every sequence up to length 4 quick / 6 thorough over "
        "{error A, error B, reset 0x0000, reset 0x00FF, near-reset 0x0100}, alternately on a bare consumer and through the bus, "
        "callbacks registered before/in the middle), roundtrip (producer send/reset for all registers x data "
        "lengths 0..5 x argument forms), history (Hypothesis, drawn op by op and - cheaper, so in larger number - "
        "expanded from a drawn 64-bit seed by a splitmix64 stream: 1..40 (thorough 80) ops on two consumers: raw 8-byte frames with "
        "codes biased to 0x00xx, xx00/xxFF, 0x01xx..0x0Fxx, registers 0..255, any 5 data bytes, int/float "
        "timestamps; add_callback; reset(); producer send/reset through the bus; foreign COB-IDs), wait "
        "(pre-history, filter or none, fed bursts, silence), long (a splitmix64 stream of 300..20 000 frames, thorough 70 000, up to "
        "5 000 (thorough 33 000) through the bus, for two consumers, without reset frames or with one in ~50/~97/~1000, 0..2 callbacks; the lengths of log/active/"
        "invocation record are compared after every frame, the full lists at n/4, n/2, n), wait_seq (1..3 consecutive "
        "wait() calls on one consumer of a two-node rig, the consumer's own condition object observed in place; per call: "
        "frames delivered before the call while nobody waits, bursts while the caller is blocked made of frames of the "
        "waited node, of the other node (also with the waited code) and foreign COB-IDs; a pre-history of up to 1 030 (thorough 17 000) frames; "
        "enumerated timed members: first matching frame 0.3/1.3 s (thorough also 2.5/5.5 s) after the caller blocked with a 20 s "
        "time-out, silence with time-out 0.25/1.4 s (thorough 3 s), non-matching traffic every ~4 ms against a 50 ms time-out), "
        "wait_multi (2..4 callers with their own filters start waiting at drawn points of a frame sequence for two nodes; "
        "each must be handed the first frame of the waited node that matches its filter and arrived after it blocked; "
        "the generator appends frames until every caller has a match), "
        "not-emcy (bus rigs whose consumer side is fed through the library's can.Listener: remote frames and error frames "
        "with the EMCY COB-ID of one of the two nodes; enumerated: every sequence up to length 4 (thorough 5) over {error A, "
        "error B, reset, remote frame node 0, remote frame node 1, error frame node 0} holding at least one of the latter three; "
        "drawn as an op of history and as a frame kind of wait_seq (while the caller is blocked, between calls); half of the "
        "other bus histories also go through the listener), "
        "paced waits (wait_seq calls whose bursts are fed at given moments after the caller blocked (again): enumerated shapes with "
        "an explicit time-out of 3 s (thorough 2..5 s): 2..6 non-matching frames, then the matching one at ~0.6 of the time-out; "
        "only non-matching frames against 1.5 s; 70 non-matching frames 20 ms apart (thorough also 30 x 0.1 s, 150 x 10 ms, 12 x 0.4 s) and then "
        "the matching one against the 20 s time-out; Hypothesis: 2..4 frames at drawn twentieths of a 1.5..3 s time-out). "
        "Oracle: list model written from the property text "
        "and the CiA 301 frame layout / error class table. Non-trivial: history or interleaving with an error "
        "before and an error after a reset frame on the same consumer; wait case with a pre-history or >= 2 fed "
        "frames; roundtrip with 1..4 data bytes (padding visible); long history with reset frames; wait_seq with >= 2 calls "
        "or frames of another node or a pre-history; code cases are counted as trivial. "
        "distinct = canonical JSON of the case.")
ASSUMPTIONS = [
    "an emergency frame has exactly 8 data bytes (CiA 301); shorter frames are outside the property's domain",
    "producer arguments are in range: code 0..0xFFFF, register 0..255, at most 5 data bytes",
    "each registered callback is a distinct callable that does not raise",
    "wait(): the waiter's public condition object `emcy_received` is replaced by a threading.Condition subclass "
    "that only reports 'about to wait' (observation only); frames are delivered while the waiter is known to be "
    "blocked, so only 'returned the wrong entry / nothing although a matching frame arrived / something although "
    "none arrived' is decided, never scheduling",
    "wait/wait_multi: after a frame the feeder waits for as many 'blocked again / returned' reports as waiters were "
    "notified (threading.Condition semantics), so a library that does not wake a waiter for a frame its filter "
    "excludes is accepted",
    "wait() expecting a hit uses a 20 s time-out (a return of None within 10 s is 'gave up before the time-out'); "
    "wait() expecting nothing uses 10 ms",
    "wait_seq: `consumer.emcy_received` is a threading.Condition (property anchor); its wait/notify/notify_all are "
    "wrapped on the object itself for the duration of the case (observation only: 'about to wait', 'notified'); after "
    "a burst the feeder waits for the caller to block again only if that condition was notified, so neither 'every "
    "frame wakes the waiter' nor 'frames of another node never do' is assumed",
    "timing (only what 'nothing on time-out' says, generous bounds): in silence wait(T) must not return before 0.8 T; "
    "with only non-matching frames arriving every ~4 ms wait(code, 0.05 s) must have returned nothing within 10 s "
    "(200 x the time-out; the library's own re-wait allows about 2 x); with a 20 s time-out a matching frame arriving "
    "0.3..5.5 s after the caller blocked must be handed over; no upper bound on how late a silent time-out is reported "
    "except the 30 s hang guard",
    "a remote frame (RTR) or an error frame is not an emergency frame even when it carries a node's EMCY COB-ID (CiA 301: "
    "the emergency object is an 8-byte data frame and is never requested by RTR): it adds no log entry, leaves the "
    "active list alone, triggers no callback and is not handed to a waiting caller; such frames are only delivered "
    "through the library's own can.Listener (`network.listeners[0].on_message_received`, what a can.Notifier calls), "
    "never through Network.notify, which has no notion of frame flags",
    "paced waits: a call with an explicit short time-out T is judged only by what the calling thread measured around "
    "the call: None after less than 0.8 T is 'gave up before the time-out' whatever was fed (the statement allows "
    "nothing only on time-out); None after more than that is a miss only if the matching frame had been delivered "
    "within 0.5 T of the call, otherwise the case counts as inconclusive (machine load) and nothing is asserted",
    "description relation: a code inside a CiA 301 class must carry that class's keyword; a code outside every "
    "class may have an empty description or one of a class sharing its high nibble (0x01xx..0x0Fxx: must not be "
    "described as error reset, they are not reset frames)",
]
BUDGET = {"quick": 150, "thorough": 330}

KNOWN_WAIT_DEFECT = ("wait: the first matching frame is followed by another frame logged before the waiter "
                     "wakes up (genuine defect: wait() inspects only log[-1])")
HIT_TIMEOUT = 20.0
MISS_TIMEOUT = 0.01
GUARD = 30.0


# ---- reference: CiA 301 emergency object ------------------------------------------
def ref_decode(data8):
    """Emergency object: bytes 0-1 error code (LSB first), byte 2 error register,
    bytes 3-7 manufacturer specific."""
    b = bytes(data8)
    assert len(b) == 8
    return (b[0] + 256 * b[1], b[2], b[3:8])


def ref_encode(code, register, data):
    return bytes([code % 256, code // 256, register]) + bytes(data) + bytes(5 - len(data))


def is_reset(code):
    """CiA 301: error code 00xx = error reset / no error."""
    return code < 0x100


class Model:
    def __init__(self):
        self.log = []
        self.active = []
        self.cbs = []
        self.calls = []

    def frame(self, fields):
        if is_reset(fields[0]):
            self.active = []
        else:
            self.active.append(fields)
        self.log.append(fields)
        for cb in self.cbs:
            self.calls.append((cb, fields))

    def clear(self):
        self.log = []
        self.active = []


# CiA 301 table "emergency error code classes": high byte -> accepted keywords
_FAMILY = {
    "reset": ("reset", "no error"),
    "generic": ("generic",),
    "current": ("current",),
    "voltage": ("voltage",),
    "temperature": ("temperature",),
    "hardware": ("hardware",),
    "software": ("software", "data set"),
    "modules": ("module",),
    "monitoring": ("monitoring", "communication", "protocol"),
    "external": ("external",),
    "functions": ("additional function",),
    "specific": ("specific",),
}
_CLASSES = {
    0x00: ("reset", ("reset", "no error")),
    0x10: ("generic", ("generic",)),
    0x20: ("current", ("current",)), 0x21: ("current", ("current",)),
    0x22: ("current", ("current",)), 0x23: ("current", ("current",)),
    0x30: ("voltage", ("voltage",)), 0x31: ("voltage", ("voltage",)),
    0x32: ("voltage", ("voltage",)), 0x33: ("voltage", ("voltage",)),
    0x40: ("temperature", ("temperature",)), 0x41: ("temperature", ("temperature",)),
    0x42: ("temperature", ("temperature",)),
    0x50: ("hardware", ("hardware",)),
    0x60: ("software", ("software",)), 0x61: ("software", ("software",)),
    0x62: ("software", ("software",)), 0x63: ("software", ("software", "data set")),
    0x70: ("modules", ("module",)),
    0x80: ("monitoring", ("monitoring",)), 0x81: ("monitoring", ("monitoring", "communication")),
    0x82: ("monitoring", ("monitoring", "protocol")),
    0x90: ("external", ("external",)),
    0xF0: ("functions", ("additional function",)),
    0xFF: ("specific", ("specific",)),
}


def _allowed_families(code):
    hi = code >> 8
    if hi in _CLASSES:
        return {_CLASSES[hi][0]}
    if hi >> 4 == 0:
        return set()        # 0x01xx..0x0Fxx are not reset frames
    return {fam for h, (fam, _) in _CLASSES.items() if h >> 4 == hi >> 4}


def _check_desc(code, D):
    from canopen.emcy import EmcyError
    err = EmcyError(code, 0, b"\x00" * 5, 0)
    try:
        desc = err.get_desc()
        text = str(err)
    except Exception as e:
        D.append(Discrepancy("C16/desc/raises", f"code 0x{code:04X}: {type(e).__name__}: {e}"))
        return
    if not isinstance(desc, str) or not isinstance(text, str):
        D.append(Discrepancy("C16/desc/type", f"code 0x{code:04X}: get_desc() -> {desc!r}, str() -> {text!r}"))
        return
    hi = code >> 8
    allowed = _allowed_families(code)
    low = desc.lower()
    if hi in _CLASSES:
        fam, req = _CLASSES[hi]
        if not any(k in low for k in req):
            D.append(Discrepancy("C16/desc/class-keyword-missing",
                                 f"code 0x{code:04X} is in CiA 301 class {hi:02X}xx ({fam}); get_desc() = {desc!r}"))
            return
    for view, s in (("get_desc", low), ("str", text.lower())):
        for fam, kws in _FAMILY.items():
            if fam in allowed:
                continue
            hit = [k for k in kws if k in s]
            if hit:
                D.append(Discrepancy("C16/desc/foreign-class",
                                     f"code 0x{code:04X}: {view}() = {(desc if view == 'get_desc' else text)!r} "
                                     f"names class family '{fam}', allowed {sorted(allowed) or 'none'}"))
                return


# ---- rig ------------------------------------------------------------------------
def _fields(e):
    return (e.code, e.register, bytes(e.data), e.timestamp)


def _show(f):
    return f"(0x{f[0]:04X}, reg {f[1]}, {f[2].hex()}, ts {f[3]!r})" if isinstance(f[0], int) else repr(f)


def _showl(lst):
    return "[" + ", ".join(_show(f) for f in lst[-6:]) + f"] ({len(lst)} entries)"


class Rig:
    def __init__(self, kind, ids, ctor="arg", listener=False):
        from canopen.emcy import EmcyConsumer
        self.kind = kind
        self.ids = list(ids)
        self.models = [Model() for _ in ids]
        self.calls = [[] for _ in ids]
        self.ncb = 0
        if kind == "direct":
            self.consumers = [EmcyConsumer() for _ in ids]
        else:
            import canopen
            self.hub = Hub()
            self.net_p, self.port_p = self.hub.attach("producers")
            self.net_c, self.port_c = self.hub.attach("consumers")
            # listener: every frame reaches the consumers' network through the library's own
            # can.Listener (Notifier -> MessageListener -> Network.notify), flags and all
            self.port_c.via_listener = bool(listener)
            self.locals = []
            self.remotes = []
            for k, i in enumerate(ids):
                lod, rod = canopen.ObjectDictionary(), canopen.ObjectDictionary()
                if ctor == "od":
                    # the node id is taken from the dictionary (constructor argument None / 0)
                    lod.node_id = rod.node_id = i
                ln = canopen.LocalNode((0, None)[k % 2] if ctor == "od" else i, lod)
                self.net_p.add_node(ln)
                self.locals.append(ln)
                rn = canopen.RemoteNode((None, 0)[k % 2] if ctor == "od" else i, rod)
                self.net_c.add_node(rn)
                self.remotes.append(rn)
            self.consumers = [rn.emcy for rn in self.remotes]

    def add_callback(self, k):
        cid = self.ncb
        self.ncb += 1
        rec = self.calls[k]

        def cb(entry, cid=cid, rec=rec):
            rec.append((cid, _fields(entry)))
        self.consumers[k].add_callback(cb)
        self.models[k].cbs.append(cid)

    def raw_frame(self, k, data8, ts, buf="bytes"):
        """Deliver one 8-byte emergency frame of node k; returns the timestamp the
        consumer was given."""
        can_id = 0x80 + self.ids[k]
        if self.kind == "direct":
            payload = bytes(data8) if buf == "bytes" else bytearray(data8)
            self.consumers[k].on_emcy(can_id, payload, ts)
            return ts
        fr = Frame(can_id, bytes(data8), ts=ts)
        self.hub.inject(fr)
        return fr.ts

    def not_emcy(self, k, error=False):
        """A frame with node k's EMCY COB-ID that is NOT an emergency frame: a remote
        transmission request (no data) or an error frame."""
        fr = Frame(0x80 + self.ids[k], b"", remote=not error, error=bool(error), extended=False)
        self.hub.inject(fr)

    def bus_errors(self):
        if self.kind != "bus":
            return []
        errs = self.port_c.notify_errors + self.port_p.notify_errors
        return errs


def _compare(rig, D, tag, last_was_reset):
    for k, c in enumerate(rig.consumers):
        m = rig.models[k]
        who = f"{tag}, consumer of node {rig.ids[k]}"
        try:
            got_log = [_fields(e) for e in c.log]
            got_act = [_fields(e) for e in c.active]
        except Exception as e:
            D.append(Discrepancy("C16/observe/raises", f"{who}: reading log/active: {type(e).__name__}: {e}"))
            return
        if got_log != m.log:
            if len(got_log) != len(m.log):
                sig = "count"
            else:
                i = next(i for i in range(len(got_log)) if got_log[i] != m.log[i])
                names = ("code", "register", "data", "timestamp")
                sig = next((names[j] for j in range(4) if got_log[i][j] != m.log[i][j]), "entry")
            D.append(Discrepancy(f"C16/log/{sig}", f"{who}: log = {_showl(got_log)} want {_showl(m.log)}"))
            return
        if got_act != m.active:
            sig = "after-reset" if last_was_reset else "after-error"
            D.append(Discrepancy(f"C16/active/{sig}",
                                 f"{who}: active = {_showl(got_act)} want {_showl(m.active)}"))
            return
        if rig.calls[k] != m.calls:
            got, want = rig.calls[k], m.calls
            if len(got) != len(want):
                sig = "count"
            elif [g[0] for g in got] != [w[0] for w in want]:
                sig = "order"
            else:
                sig = "entry"
            D.append(Discrepancy(f"C16/callbacks/{sig}",
                                 f"{who}: invocations (callback id, entry) = {got[-6:]} ({len(got)}) "
                                 f"want {want[-6:]} ({len(want)})"))
            return


def _run_ops(rig, ops, D):
    """Interpret a history; returns feature dict."""
    feat = {"producer": False, "cb": False, "clear": False, "noise": False,
            "nframes": 0, "nresets": 0, "between": False, "rtr": False, "rtr_after_error": False}
    # per consumer: 0 nothing, 1 error seen, 2 error then reset, 3 error, reset, error
    phase = [0 for _ in rig.ids]
    for n, op in enumerate(ops):
        kind = op["op"]
        k = op.get("node", 0)
        tag = f"step {n} ({kind})"
        last_reset = False
        try:
            if kind == "frame":
                code, reg, data = op["code"], op["reg"], bytes(op["data"])
                wire = ref_encode(code, reg, data)
                assert ref_decode(wire) == (code, reg, data)      # harness self-check
                ts = rig.raw_frame(k, wire, op["ts"], op.get("buf", "bytes"))
                rig.models[k].frame((code, reg, data, ts))
                tag = f"step {n} (frame {wire.hex()} for node {rig.ids[k]})"
                fcode = code
            elif kind in ("send", "preset"):
                feat["producer"] = True
                prod = rig.locals[k].emcy
                data = bytes(op["data"])
                reg = op["reg"]
                nsent = len(rig.port_p.sent)
                if kind == "send":
                    fcode = op["code"]
                    form = op["form"]
                    if form == "code":          # defaults: register 0, no data
                        reg, data = 0, b""
                        prod.send(fcode)
                    elif form == "code_reg":
                        data = b""
                        prod.send(fcode, reg)
                    elif form == "kw":
                        prod.send(code=fcode, register=reg, data=data)
                    else:
                        prod.send(fcode, reg, data)
                else:
                    fcode = 0
                    form = op["form"]
                    if form == "none":
                        reg, data = 0, b""
                        prod.reset()
                    elif form == "reg":
                        data = b""
                        prod.reset(reg)
                    elif form == "kw":
                        prod.reset(register=reg, data=data)
                    else:
                        prod.reset(reg, data)
                tag = f"step {n} ({kind} code 0x{fcode:04X} reg {reg} data {data.hex()} form {form}, node {rig.ids[k]})"
                new = rig.port_p.sent[nsent:]
                want = ref_encode(fcode, reg, data)
                if (len(new) != 1 or new[0].can_id != 0x80 + rig.ids[k] or new[0].data != want
                        or new[0].remote or new[0].extended):
                    D.append(Discrepancy("C16/producer/wire",
                                         f"{tag}: frames on the bus {new} want one frame "
                                         f"{0x80 + rig.ids[k]:X}#{want.hex()}"))
                    return feat
                rig.models[k].frame((fcode, reg, data + bytes(5 - len(data)), new[0].ts))
            elif kind == "cb":
                feat["cb"] = True
                rig.add_callback(k)
                continue
            elif kind == "clear":
                feat["clear"] = True
                rig.consumers[k].reset()
                rig.models[k].clear()
                phase[k] = 0
                fcode = None
            elif kind == "noise":
                feat["noise"] = True
                rig.hub.inject(Frame(op["can_id"], bytes(op["data"]), ts=op["ts"]))
                fcode = None
            elif kind == "rtr":
                # a remote / error frame with the node's EMCY COB-ID is not an emergency frame:
                # no entry, active list untouched, no callback
                if rig.kind != "direct":
                    feat["rtr"] = True
                    if rig.models[k].active:
                        feat["rtr_after_error"] = True
                    rig.not_emcy(k, op.get("error", False))
                    tag = (f"step {n} ({'error' if op.get('error') else 'remote'} frame with COB-ID "
                           f"0x{0x80 + rig.ids[k]:X}, not an emergency frame)")
                fcode = None
            elif kind == "readd":
                # the node object is handed to its network once more: nothing changes for the consumer
                feat["noise"] = True
                if rig.kind != "direct":
                    rig.net_c.add_node(rig.remotes[k])
                fcode = None
            else:
                raise ValueError(kind)
        except Exception as e:
            if kind not in ("frame", "send", "preset", "clear", "noise", "readd", "rtr"):
                raise
            D.append(Discrepancy(f"C16/raises/{kind}", f"{tag}: {type(e).__name__}: {e}"))
            return feat
        errs = rig.bus_errors()
        if errs:
            fr, e = errs[0]
            D.append(Discrepancy("C16/raises/notify", f"{tag}: delivering {fr} raised {type(e).__name__}: {e}"))
            return feat
        if fcode is not None:
            feat["nframes"] += 1
            if is_reset(fcode):
                last_reset = True
                feat["nresets"] += 1
                if phase[k] == 1:
                    phase[k] = 2
            else:
                if phase[k] == 0:
                    phase[k] = 1
                elif phase[k] == 2:
                    phase[k] = 3
                    feat["between"] = True
        _compare(rig, D, tag, last_reset)
        if D:
            return feat
    return feat


def _run_history(case):
    D = []
    rig = Rig(case["rig"], case["ids"], case.get("ctor", "arg"), case.get("listener", False))
    feat = _run_ops(rig, case["ops"], D)
    if case["kind"] == "interleave" and feat["rtr"]:
        klass = f"interleave-rtr/len{sum(1 for o in case['ops'] if o['op'] in ('frame', 'rtr'))}"
        return Outcome(feat["rtr_after_error"], klass, D)
    elif case["kind"] == "interleave":
        klass = f"interleave/len{sum(1 for o in case['ops'] if o['op'] == 'frame')}"
    elif case["kind"] == "roundtrip":
        op = case["ops"][-1]
        klass = f"roundtrip/{op['op']}/{op['form']}/data{len(op['data'])}"
        return Outcome(0 < len(op["data"]) < 5 and op["form"] in ("kw", "all"), klass, D)
    else:
        n = feat["nframes"]
        size = "1-3" if n <= 3 else "4-10" if n <= 10 else "11+"
        shape = ("reset-between-errors" if feat["between"] else
                 "with-reset" if feat["nresets"] else "errors-only" if n else "no-frames")
        klass = (f"history/{case['rig']}/{shape}/frames{size}"
                 + ("/listener" if case.get("listener") else "")
                 + ("/rtr" if feat["rtr"] else "")
                 + ("/producer" if feat["producer"] else "")
                 + ("/cb" if feat["cb"] else "")
                 + ("/clear" if feat["clear"] else ""))
    return Outcome(feat["between"], klass, D)


# ---- code cases -------------------------------------------------------------------
def _run_code(case):
    code = case["code"]
    D = []
    _check_desc(code, D)
    if not D:
        rig = Rig("direct", [1])
        rig.add_callback(0)
        first = 0x8130 if code != 0x8130 else 0x8140
        ops = [
            {"op": "frame", "code": first, "reg": 0x11, "data": b"\x01\x02\x03\x04\x05", "ts": 1},
            {"op": "frame", "code": code, "reg": (code ^ (code >> 8) ^ 0x5A) & 0xFF,
             "data": bytes([(code >> 8) ^ 0xFF, code & 0xFF, 0, 0x80, (code * 7) & 0xFF]), "ts": 2.5,
             "buf": "bytearray" if code & 1 else "bytes"},
            {"op": "frame", "code": 0xFF01, "reg": 0x81, "data": b"\xff\x00\x00\x00\x00", "ts": 3},
        ]
        _run_ops(rig, ops, D)
    hi = code >> 8
    klass = "code/reset" if is_reset(code) else (
        f"code/class-{_CLASSES[hi][0]}" if hi in _CLASSES else "code/outside-every-class")
    return Outcome(False, klass, D)


# ---- wait cases ---------------------------------------------------------------------
class _ProbeCondition(threading.Condition):
    """threading.Condition that tells the harness when a thread is about to block.
    wait() is entered with the lock held and the lock is only released inside
    the base class once the caller is registered as a waiter: a feeder that
    acquires the condition after seeing 'enter' knows the waiter is blocked."""

    def __init__(self, q):
        super().__init__()
        self._verif_q = q
        self.notifies = 0

    def wait(self, timeout=None):
        self._verif_q.put("enter")
        return super().wait(timeout)

    def notify(self, n=1):          # notify_all() comes through here as well
        self.notifies += 1
        return super().notify(n)


def _wait_plan(case):
    """Returns (pre, bursts, expected_index_in_fed or None, known_defect)."""
    filt = case["filter"]
    pre = case["pre"]
    bursts = case["feed"]
    pos = 0
    for b in bursts:
        for j, f in enumerate(b):
            if filt is None or f["code"] == filt:
                return pos + j, j != len(b) - 1
        pos += len(b)
    return None, False


def _run_wait(case):
    from canopen.emcy import EmcyConsumer
    filt = case["filter"]
    expect_i, defect = _wait_plan(case)
    # `defect` marks the class "the first matching frame is followed by another frame logged
    # before the waiter wakes up": it used to be excluded (wait() only looked at log[-1]);
    # repaired in /repo by commit 90d8476, so it is generated and judged like every other case.
    D = []
    q = queue.Queue()
    if case.get("rig") == "bus":
        rig = Rig("bus", [case.get("id", 1)])
    else:
        rig = Rig("direct", [case.get("id", 1)])
    consumer = rig.consumers[0]
    cond = _ProbeCondition(q)
    consumer.emcy_received = cond
    model = rig.models[0]
    seq = [0]

    def deliver(f):
        seq[0] += 1
        ts = 1000 + seq[0]
        data = bytes(f["data"])
        rig.raw_frame(0, ref_encode(f["code"], f["reg"], data), ts)
        model.frame((f["code"], f["reg"], data, ts))
        return (f["code"], f["reg"], data, ts)

    for f in case["pre"]:
        deliver(f)
    timeout = HIT_TIMEOUT if expect_i is not None else MISS_TIMEOUT
    form = case.get("form", "pos")
    box = {}

    def waiter():
        t0 = time.monotonic()
        try:
            if form == "kw":
                box["res"] = consumer.wait(emcy_code=filt, timeout=timeout)
            elif form == "timeout_only" and filt is None:
                box["res"] = consumer.wait(timeout=timeout)
            else:
                box["res"] = consumer.wait(filt, timeout)
        except BaseException as e:  # noqa: judged below
            box["exc"] = e
        box["elapsed"] = time.monotonic() - t0
        q.put("done")

    th = threading.Thread(target=waiter, name="c16-waiter", daemon=True)
    th.start()
    fed = []
    stuck = False
    armed = False
    try:
        for burst in case["feed"]:
            # after a burst that did not notify the condition the waiter is still blocked
            # (a library need not wake a waiter for a frame its filter excludes)
            if not armed:
                try:
                    ev = q.get(timeout=GUARD)
                except queue.Empty:
                    stuck = True
                    break
                if ev == "done":
                    break
            n0 = cond.notifies
            if len(burst) > 1:
                with cond:                      # waiter is blocked in wait(); it cannot run before all are logged
                    for f in burst:
                        fed.append(deliver(f))
            else:
                with cond:
                    pass
                fed.append(deliver(burst[0]))
            armed = cond.notifies == n0
    except Exception as e:
        D.append(Discrepancy("C16/raises/frame", f"delivering while a caller waits: {type(e).__name__}: {e}"))
    th.join(GUARD + 3 * timeout)
    nfed = sum(len(b) for b in case["feed"])
    klass = ("wait/" + ("filter" if filt is not None else "any") + "/"
             + ("silence" if nfed == 0 else "no-match" if expect_i is None else
                "hit-first" if expect_i == 0 else "hit-after-skips")
             + ("/burst" if any(len(b) > 1 for b in case["feed"]) else "")
             + ("/pre" if case["pre"] else ""))
    nontrivial = bool(case["pre"]) or nfed >= 2
    if D:
        return Outcome(nontrivial, klass, D)
    if th.is_alive() or stuck:
        D.append(Discrepancy("C16/wait/hang", f"wait({filt!r}, {timeout}) neither blocks on emcy_received nor "
                             f"returns within {GUARD}s after {len(fed)} fed frames"))
        return Outcome(nontrivial, klass, D)
    if "exc" in box:
        e = box["exc"]
        D.append(Discrepancy("C16/wait/raises", f"wait({filt!r}, {timeout}) raised {type(e).__name__}: {e}"))
        return Outcome(nontrivial, klass, D)
    res = box["res"]
    try:
        got = None if res is None else _fields(res)
    except Exception as e:
        D.append(Discrepancy("C16/wait/result-type", f"wait returned {res!r}: {type(e).__name__}: {e}"))
        return Outcome(nontrivial, klass, D)
    what = (f"wait({'0x%04X' % filt if filt is not None else None}, timeout {timeout}) after {len(case['pre'])} "
            f"earlier frames, fed {[[hex(f['code']) for f in b] for b in case['feed']]}")
    if expect_i is None:
        if got is not None:
            sig = "stale-entry" if got[3] <= 1000 + len(case["pre"]) else "non-matching-entry"
            D.append(Discrepancy(f"C16/wait/{sig}", f"{what}: returned {_show(got)}, want None (no matching frame "
                                 f"arrived after the call)"))
    else:
        # frames before the first match are all fed one wake-up at a time or as a burst ending in the match
        want = None
        pos = 0
        for b in case["feed"]:
            for f in b:
                if pos == expect_i:
                    want = (f["code"], f["reg"], bytes(f["data"]), 1000 + len(case["pre"]) + pos + 1)
                pos += 1
        if got is None:
            if expect_i < len(fed):
                D.append(Discrepancy("C16/wait/missed", f"{what}: returned None after {box['elapsed']:.3f}s although "
                                     f"{_show(want)} arrived while waiting"))
            elif box["elapsed"] < timeout / 2:
                D.append(Discrepancy("C16/wait/gave-up-early", f"{what}: returned None after {box['elapsed']:.3f}s, "
                                     f"before the time-out and before the matching frame could be fed"))
            else:
                D.append(Discrepancy("C16/wait/missed", f"{what}: returned None after {box['elapsed']:.3f}s"))
        elif got != want:
            if got[3] <= 1000 + len(case["pre"]):
                sig = "stale-entry"
            elif filt is not None and got[0] != filt:
                sig = "non-matching-entry"
            else:
                sig = "not-the-next-entry"
            D.append(Discrepancy(f"C16/wait/{sig}", f"{what}: returned {_show(got)} want {_show(want)}"))
    if not D:
        _compare(rig, D, what, False)
    return Outcome(nontrivial, klass, D)


def _run_wait_many(case):
    """Several callers wait on the same consumer; one frame arrives that matches all of
    their filters: *each* waiting caller must be handed that entry (added after the seeded
    change C16-r2m2, notify_all -> notify, which wakes only one of them)."""
    n = case["n"]
    f = case["frame"]
    D = []
    q = queue.Queue()
    rig = Rig("direct", [case.get("id", 1)])
    consumer = rig.consumers[0]
    cond = _ProbeCondition(q)
    consumer.emcy_received = cond
    results = [None] * n
    errors = [None] * n

    def waiter(i):
        try:
            filt = case["filters"][i % len(case["filters"])]
            results[i] = consumer.wait(filt, HIT_TIMEOUT)
        except BaseException as e:  # noqa: judged below
            errors[i] = e

    ths = [threading.Thread(target=waiter, args=(i,), daemon=True) for i in range(n)]
    for t in ths:
        t.start()
    entered = 0
    try:
        while entered < n:
            q.get(timeout=GUARD)
            entered += 1
    except queue.Empty:
        D.append(Discrepancy("C16/wait/hang", f"only {entered} of {n} callers blocked in wait() within {GUARD}s"))
        return Outcome(True, "wait-many", D)
    with cond:      # all n callers are registered as waiters now
        pass
    data = bytes(f["data"])
    rig.raw_frame(0, ref_encode(f["code"], f["reg"], data), 2001)
    for t in ths:
        t.join(HIT_TIMEOUT + GUARD)
    want = (f["code"], f["reg"], data, 2001)
    for i in range(n):
        if errors[i] is not None:
            D.append(Discrepancy("C16/wait/raises", f"caller {i} of {n}: {type(errors[i]).__name__}: {errors[i]}"))
            break
        got = None if results[i] is None else _fields(results[i])
        if got != want:
            D.append(Discrepancy("C16/wait/concurrent-caller-not-served",
                                 f"{n} callers waited (filters {case['filters']}), frame {_show(want)} arrived: "
                                 f"caller {i} got {_show(got) if got else None}"))
            break
    return Outcome(True, f"wait-many/{n}", D)


# ---- long histories ------------------------------------------------------------------
def expand_long(seed, n, reset_every):
    """(node index, code, register, data, timestamp) x n from one seed.  reset_every = 0: no
    reset frame at all (active == log), else about one frame in `reset_every` is a reset."""
    r = _Prng(seed)
    for i in range(n):
        node = 0 if r.below(4) else 1
        if reset_every and r.below(reset_every) == 0:
            code = r.below(0x100)
        else:
            code = _code_from(r)
            if code < 0x100:
                code += 0x100           # 0x0100..0x01FF: not a reset frame
        rd = r.next().to_bytes(8, "little")
        ts = i + 1 if r.below(4) else _ts(r.below(2 ** 36))
        yield node, code, rd[0], rd[1:6], ts


def _run_long(case):
    """'For ANY sequence of emergency frames': sequences far longer than the other families
    produce (a capped / rotating log or active list, a counter that wraps)."""
    rig = Rig(case["rig"], case["ids"])
    for k in range(case.get("cbs", 0)):
        rig.add_callback(k % len(case["ids"]))
    n = case["n"]
    every = case.get("reset_every", 0)
    full = {max(1, n // 4), max(1, n // 2), n}
    D = []
    i = 0
    for i, (node, code, reg, data, ts) in enumerate(expand_long(case["seed"], n, every), 1):
        wire = ref_encode(code, reg, data)
        tag = f"frame {i} of {n} ({wire.hex()} for node {rig.ids[node]})"
        try:
            ts = rig.raw_frame(node, wire, ts)
        except Exception as e:
            D.append(Discrepancy("C16/raises/frame", f"{tag}: {type(e).__name__}: {e}"))
            break
        m = rig.models[node]
        m.frame((code, reg, data, ts))
        c = rig.consumers[node]
        try:
            same = (len(c.log) == len(m.log) and len(c.active) == len(m.active)
                    and len(rig.calls[node]) == len(m.calls))
        except Exception:
            same = False
        if same and i not in full:
            continue
        errs = rig.bus_errors()
        if errs:
            fr, e = errs[0]
            D.append(Discrepancy("C16/raises/notify", f"{tag}: delivering {fr} raised {type(e).__name__}: {e}"))
            break
        _compare(rig, D, tag, is_reset(code))
        if D:
            break
    size = "<=1000" if n <= 1000 else "<=10000" if n <= 10000 else ">10000"
    klass = f"long/{case['rig']}/frames{size}/" + ("with-resets" if every else "errors-only")
    return Outcome(bool(every), klass, D)


# ---- consecutive waits, second node, timing ------------------------------------------
NO_TIMEOUT_BOUND = 10.0     # s; wait(code, 0.05) under steady non-matching traffic
FLOOD_TIMEOUT = 0.05
FLOOD_PACE = 0.004


class _Probe:
    """Observes the condition object a consumer ALREADY has (it is not replaced, so a
    condition that is shared between consumers stays shared): reports 'about to wait' and
    counts notifications.  wait() is entered with the lock held and the lock is only released
    inside the original wait once the caller is registered as a waiter: a feeder that
    acquires the condition after seeing 'enter' knows the waiter is blocked."""

    def __init__(self, cond):
        self.cond = cond
        self.q = queue.Queue()
        self.notifies = 0
        self.woken = 0
        orig_wait, orig_notify, orig_notify_all = cond.wait, cond.notify, cond.notify_all

        def wait(timeout=None):
            self.q.put("enter")
            return orig_wait(timeout)

        def notify(n=1):
            self.notifies += 1
            # threading.Condition.notify wakes min(n, number of registered waiters) threads
            self.woken += min(n, len(getattr(cond, "_waiters", ())))
            return orig_notify(n)

        def notify_all():
            self.notifies += 1
            return orig_notify_all()
        cond.wait, cond.notify, cond.notify_all = wait, notify, notify_all

    def remove(self):
        for name in ("wait", "notify", "notify_all"):
            self.cond.__dict__.pop(name, None)


def _fshow(f):
    if "not_emcy" in f:
        return f"{f['not_emcy']}-frame@{f.get('of', 0)}"
    return hex(f["code"]) + "@" + str(f.get("node", 0))


def _first_match(call):
    """Index (in feed order, all frames counted) of the first frame of the WAITED node that
    matches the filter, or None."""
    pos = 0
    for b in call["feed"]:
        for f in b:
            if f.get("node", 0) == 0 and (call["filter"] is None or f["code"] == call["filter"]):
                return pos
            pos += 1
    return None


def _run_wait_seq(case):
    rig = Rig(case.get("rig", "direct"), case["ids"], listener=case.get("listener", False))
    for k in range(case.get("cbs", 0)):
        rig.add_callback(k % 2)
    consumer = rig.consumers[0]
    probe = _Probe(consumer.emcy_received)
    try:
        return _wait_seq_body(case, rig, consumer, probe)
    finally:
        probe.remove()


def _wait_seq_body(case, rig, consumer, probe):
    D = []
    cond = probe.cond
    seq = [0]

    def deliver(f):
        """One frame: of the waited node (node 0), of the other node (1) or a foreign COB-ID."""
        seq[0] += 1
        ts = 1000 + seq[0]
        node = f.get("node", 0)
        if node == "noise":
            if rig.kind == "bus" and "not_emcy" in f:
                # remote / error frame with the EMCY COB-ID of node f["of"]: not an emergency frame
                rig.not_emcy(f.get("of", 0), f["not_emcy"] == "error")
            elif rig.kind == "bus":
                rig.hub.inject(Frame(f["can_id"], ref_encode(f["code"], f["reg"], bytes(f["data"])), ts=ts))
            return None
        data = bytes(f["data"])
        rig.raw_frame(node, ref_encode(f["code"], f["reg"], data), ts)
        fields = (f["code"], f["reg"], data, ts)
        rig.models[node].frame(fields)
        return fields

    nlong = case.get("pre_long", 0)
    if nlong:
        for node, code, reg, data, _ in expand_long(case.get("seed", 1), nlong, 50):
            deliver({"node": node, "code": code, "reg": reg, "data": data})
    for f in case["pre"]:
        deliver(f)

    tags = set()
    if nlong:
        tags.add("long-pre")
    elif case["pre"]:
        tags.add("pre")
    for ci, call in enumerate(case["calls"]):
        filt = call["filter"]
        flood = call.get("flood")
        expect_i = None if flood else _first_match(call)
        try:
            for f in call.get("gap", []):
                deliver(f)
        except Exception as e:
            D.append(Discrepancy("C16/raises/frame", f"delivering while nobody waits: {type(e).__name__}: {e}"))
            break
        if call.get("gap"):
            tags.add("between-calls")
        start_seq = seq[0]
        timeout = call.get("timeout") or (FLOOD_TIMEOUT if flood else
                                          HIT_TIMEOUT if expect_i is not None else MISS_TIMEOUT)
        form = call.get("form", "pos")
        box = {}
        done = threading.Event()
        q = probe.q = queue.Queue()
        delays = call.get("delays") or ([call["delay"]] if call.get("delay") else [])
        timed = bool(call.get("timeout")) and bool(call["feed"])
        t_match = None

        def waiter():
            t0 = box["t0"] = time.monotonic()
            try:
                if form == "kw":
                    box["res"] = consumer.wait(emcy_code=filt, timeout=timeout)
                elif form == "timeout_only" and filt is None:
                    box["res"] = consumer.wait(timeout=timeout)
                else:
                    box["res"] = consumer.wait(filt, timeout)
            except BaseException as e:  # noqa: judged below
                box["exc"] = e
            box["elapsed"] = time.monotonic() - t0
            done.set()
            q.put("done")

        th = threading.Thread(target=waiter, name="c16-waiter", daemon=True)
        th.start()
        stuck = False
        want = None
        returned_before_match = False
        still_blocked = False
        nfed = 0
        try:
            if flood:
                tags.add("traffic-beyond-timeout")
                try:
                    q.get(timeout=2.0)
                except queue.Empty:
                    pass
                t0 = time.monotonic()
                j = 0
                while not done.is_set():
                    if time.monotonic() - t0 > NO_TIMEOUT_BOUND:
                        still_blocked = True
                        break
                    deliver(flood[j % len(flood)])
                    j += 1
                    nfed += 1
                    time.sleep(FLOOD_PACE)
            else:
                armed = False
                finished = False
                pos = 0
                for bi, burst in enumerate(call["feed"]):
                    if not armed and not finished:
                        try:
                            ev = q.get(timeout=GUARD)
                        except queue.Empty:
                            stuck = True
                            break
                        if ev == "done":
                            finished = True
                        else:
                            armed = True
                    if bi < len(delays) and delays[bi] and not finished:
                        tags.add("paced" if len(delays) > 1 else "delayed")
                        time.sleep(delays[bi])
                    if done.is_set():
                        finished = True
                    n0 = probe.notifies
                    # waiter (if any) is blocked in wait(): it cannot run before the whole burst is logged
                    with cond:
                        if len(burst) == 1:
                            pass
                        else:
                            for f in burst:
                                if pos == expect_i:
                                    returned_before_match = done.is_set()
                                got_f = deliver(f)
                                if pos == expect_i:
                                    want = got_f
                                    t_match = time.monotonic()
                                pos += 1
                    if len(burst) == 1:
                        if pos == expect_i:
                            returned_before_match = done.is_set()
                        got_f = deliver(burst[0])
                        if pos == expect_i:
                            want = got_f
                            t_match = time.monotonic()
                        pos += 1
                    nfed += len(burst)
                    if any(f.get("node", 0) != 0 for f in burst):
                        tags.add("other-node")
                    if any("not_emcy" in f for f in burst) and rig.kind == "bus":
                        tags.add("rtr")
                    if probe.notifies != n0:
                        armed = False
        except Exception as e:
            D.append(Discrepancy("C16/raises/frame", f"delivering while a caller waits: {type(e).__name__}: {e}"))
        th.join(GUARD + 3 * timeout)
        what = (f"call {ci + 1} of {len(case['calls'])}: wait({'0x%04X' % filt if filt is not None else None}, "
                f"timeout {timeout}) on node {rig.ids[0]} after {start_seq} earlier frames"
                + (f", non-matching traffic {[_fshow(f) for f in flood]} every "
                   f"{FLOOD_PACE}s" if flood else
                   f", fed {[[_fshow(f) for f in b] for b in call['feed']]}")
                + (f" starting {call['delay']}s after the caller blocked" if call.get("delay") else "")
                + (f", burst i fed {call['delays']}[i] s after the caller blocked (again)" if call.get("delays") else ""))
        if D:
            break
        if th.is_alive() or stuck:
            if still_blocked:
                D.append(Discrepancy("C16/wait/no-timeout-under-traffic",
                                     f"{what}: still waiting after {NO_TIMEOUT_BOUND}s ({nfed} frames, none matching)"))
            else:
                D.append(Discrepancy("C16/wait/hang", f"{what}: neither blocks on emcy_received nor returns within "
                                     f"{GUARD}s after {nfed} fed frames"))
            break
        if "exc" in box:
            e = box["exc"]
            D.append(Discrepancy("C16/wait/raises", f"{what}: raised {type(e).__name__}: {e}"))
            break
        res = box["res"]
        try:
            got = None if res is None else _fields(res)
        except Exception as e:
            D.append(Discrepancy("C16/wait/result-type", f"{what}: returned {res!r}: {type(e).__name__}: {e}"))
            break
        own = rig.models[0].log
        if got is not None and got[3] <= 1000 + start_seq:
            D.append(Discrepancy("C16/wait/stale-entry", f"{what}: returned {_show(got)}, which arrived before the "
                                 f"call; want {_show(want) if want else None}"))
        elif still_blocked:
            D.append(Discrepancy("C16/wait/no-timeout-under-traffic",
                                 f"{what}: returned only after the traffic stopped ({box['elapsed']:.2f}s, {nfed} "
                                 f"frames, none matching); want nothing on time-out"))
        elif expect_i is None:
            if got is not None:
                sig = "non-matching-entry" if got in own else "foreign-entry"
                D.append(Discrepancy(f"C16/wait/{sig}", f"{what}: returned {_show(got)}, want None (no matching "
                                     f"frame of this node arrived after the call)"))
            elif call.get("timeout") and not flood and box["elapsed"] < 0.8 * timeout:
                D.append(Discrepancy("C16/wait/gave-up-early", f"{what}: returned None after {box['elapsed']:.3f}s "
                                     + ("of silence" if not call["feed"] else "(only non-matching frames arrived)")
                                     + ", before the time-out"))
        elif got is None and timed:
            # a short explicit time-out and frames spread over real time: judged only by what the
            # caller itself measured around the call, so machine load cannot raise a false alarm
            if box["elapsed"] < 0.8 * timeout:
                D.append(Discrepancy("C16/wait/gave-up-early", f"{what}: returned None after {box['elapsed']:.3f}s, "
                                     f"before the time-out ("
                                     + ("the matching frame had not been fed yet" if returned_before_match or want is None
                                        else f"{_show(want)} arrived while waiting") + ")"))
            elif want is not None and not returned_before_match and t_match - box["t0"] <= 0.5 * timeout:
                D.append(Discrepancy("C16/wait/missed", f"{what}: returned None after {box['elapsed']:.3f}s although "
                                     f"{_show(want)} arrived {t_match - box['t0']:.3f}s after the call"))
            else:
                tags.add("inconclusive-load")
        elif got is None:
            if returned_before_match or want is None:
                sig = "gave-up-early" if box["elapsed"] < timeout / 2 else "missed"
                D.append(Discrepancy(f"C16/wait/{sig}", f"{what}: returned None after {box['elapsed']:.3f}s, before "
                                     f"the matching frame arrived"))
            else:
                D.append(Discrepancy("C16/wait/missed", f"{what}: returned None after {box['elapsed']:.3f}s although "
                                     f"{_show(want)} arrived while waiting"))
        elif got != want:
            if got not in own:
                sig = "foreign-entry"
            elif filt is not None and got[0] != filt:
                sig = "non-matching-entry"
            else:
                sig = "not-the-next-entry"
            D.append(Discrepancy(f"C16/wait/{sig}", f"{what}: returned {_show(got)} want "
                                 f"{_show(want) if want else 'the first matching frame fed'}"))
        if D:
            break
        errs = rig.bus_errors()
        if errs:
            fr, e = errs[0]
            D.append(Discrepancy("C16/raises/notify", f"{what}: delivering {fr} raised {type(e).__name__}: {e}"))
            break
        _compare(rig, D, what, False)
        if D:
            break
    ncalls = len(case["calls"])
    klass = f"wait-seq/{case.get('rig', 'direct')}/calls{ncalls}" + "".join("/" + t for t in sorted(tags))
    nontrivial = ncalls >= 2 or "other-node" in tags or bool(case["pre"]) or bool(nlong)
    return Outcome(nontrivial, klass, D)


def _run_wait_multi(case):
    """Several callers with their OWN filters wait on one consumer, started at different points
    of a frame sequence: each is handed the first frame of that node that matches its filter and
    arrived after it blocked.  The generator closes every case with frames that satisfy all
    callers, so on a conforming library nobody runs into the time-out."""
    rig = Rig(case.get("rig", "direct"), case["ids"])
    probe = _Probe(rig.consumers[0].emcy_received)
    try:
        return _wait_multi_body(case, rig, rig.consumers[0], probe)
    finally:
        probe.remove()


def _wait_multi_body(case, rig, consumer, probe):
    D = []
    cond, q = probe.cond, probe.q
    callers = []
    nseq = 0
    klass = f"wait-multi/{case.get('rig', 'direct')}/callers{sum(1 for o in case['ops'] if o['op'] == 'call')}"
    for op in case["ops"]:
        if op["op"] == "call":
            c = {"filter": op["filter"], "start": nseq, "box": {}, "done": threading.Event(), "want": None,
                 "n": len(callers)}

            def waiter(c=c):
                try:
                    c["box"]["res"] = consumer.wait(c["filter"], HIT_TIMEOUT)
                except BaseException as e:  # noqa: judged below
                    c["box"]["exc"] = e
                c["done"].set()
                q.put("done")
            c["th"] = threading.Thread(target=waiter, name="c16-waiter", daemon=True)
            c["th"].start()
            callers.append(c)
            nev = 1
        else:
            nseq += 1
            ts = 1000 + nseq
            node = op.get("node", 0)
            data = bytes(op["data"])
            fields = (op["code"], op["reg"], data, ts)
            for c in callers:
                if node == 0 and c["want"] is None and (c["filter"] is None or c["filter"] == op["code"]):
                    c["want"] = fields
            w0 = probe.woken
            try:
                with cond:      # every pending caller is registered as a waiter
                    pass
                rig.raw_frame(node, ref_encode(op["code"], op["reg"], data), ts)
            except Exception as e:
                D.append(Discrepancy("C16/raises/frame", f"delivering while callers wait: {type(e).__name__}: {e}"))
                return Outcome(True, klass, D)
            rig.models[node].frame(fields)
            nev = probe.woken - w0
        # every caller that was started or woken reports once: blocked (again) or returned
        for _ in range(nev):
            try:
                q.get(timeout=GUARD)
            except queue.Empty:
                D.append(Discrepancy("C16/wait/hang", f"{len(callers)} callers, filters "
                                     f"{[c['filter'] for c in callers]}: a caller neither blocks on emcy_received "
                                     f"nor returns within {GUARD}s"))
                return Outcome(True, klass, D)
        with cond:
            pass
    # all wake-ups have been accounted for: a caller that has not returned by now will not be served
    for c in callers:
        if c["want"] is None:
            raise ValueError("generator must close the case with a frame for every caller")
        who = (f"caller {c['n'] + 1} of {len(callers)} (filters "
               f"{['0x%04X' % x['filter'] if x['filter'] is not None else None for x in callers]}, its wait started "
               f"after {c['start']} of the frames {[hex(o['code']) + '@' + str(o.get('node', 0)) for o in case['ops'] if o['op'] == 'frame']})")
        if not c["done"].is_set():
            D.append(Discrepancy("C16/wait/concurrent-caller-not-served",
                                 f"{who}: still waiting although {_show(c['want'])} arrived"))
            break
        if "exc" in c["box"]:
            e = c["box"]["exc"]
            D.append(Discrepancy("C16/wait/raises", f"{who}: {type(e).__name__}: {e}"))
            break
        res = c["box"]["res"]
        got = None if res is None else _fields(res)
        if got != c["want"]:
            sig = ("concurrent-caller-not-served" if got is None else
                   "stale-entry" if got[3] <= 1000 + c["start"] else
                   "non-matching-entry" if c["filter"] is not None and got[0] != c["filter"] else "not-the-next-entry")
            D.append(Discrepancy(f"C16/wait/{sig}", f"{who}: got {_show(got) if got else None} want {_show(c['want'])}"))
            break
    if not D:
        _compare(rig, D, "after all callers returned", False)
    return Outcome(True, klass, D)


def run_case(case) -> Outcome:
    kind = case["kind"]
    if kind == "code":
        return _run_code(case)
    if kind == "wait":
        return _run_wait(case)
    if kind == "wait_many":
        return _run_wait_many(case)
    if kind == "wait_seq":
        return _run_wait_seq(case)
    if kind == "wait_multi":
        return _run_wait_multi(case)
    if kind == "long":
        return _run_long(case)
    return _run_history(case)


def wait_many_enum():
    for n in (2, 3, 4):
        for filters in ([None], [0x2310], [None, 0x2310], [0x2310, None, 0x2310]):
            yield {"kind": "wait_many", "n": n, "filters": filters,
                   "frame": {"code": 0x2310, "reg": 3, "data": b"\x01\x02\x03\x04\x05"}}
        yield {"kind": "wait_many", "n": n, "filters": [0, None],
               "frame": {"code": 0x0000, "reg": 0, "data": bytes(5)}}


# ---- generation ------------------------------------------------------------------------
def _fr(code, reg=0, data=b"\x00" * 5, ts=1, node=0, **kw):
    d = {"op": "frame", "node": node, "code": code, "reg": reg, "data": data, "ts": ts}
    d.update(kw)
    return d


ALPHABET = [
    ("A", 0x1000, 0x01, b"\x01\x00\x00\x00\x00"),
    ("B", 0x8110, 0x11, b"\x00\x00\x00\x00\x02"),
    ("R", 0x0000, 0x00, b"\x00\x00\x00\x00\x00"),
    ("r", 0x00FF, 0x80, b"\xff\xff\xff\xff\xff"),
    ("N", 0x0100, 0x01, b"\x00\x01\x00\x01\x00"),
]


def interleavings(maxlen):
    def rec(prefix, n):
        if prefix:
            yield prefix
        if n == 0:
            return
        for a in range(len(ALPHABET)):
            yield from rec(prefix + [a], n - 1)
    i = 0
    for seq in rec([], maxlen):
        i += 1
        rig = "bus" if i % 2 else "direct"
        ops = [{"op": "cb", "node": 0}]
        mid = len(seq) // 2
        for j, a in enumerate(seq):
            if j == mid and len(seq) > 1:
                ops.append({"op": "cb", "node": 0})
            _, code, reg, data = ALPHABET[a]
            ops.append(_fr(code, reg, data, ts=j + 1, buf="bytearray" if j % 2 else "bytes"))
        yield {"kind": "interleave", "rig": rig, "ids": [1 + (i % 127)], "ops": ops}


def not_emcy_interleavings(maxlen):
    """Every sequence up to `maxlen` over {error A, error B, reset, remote frame with the COB-ID of
    node 0, remote frame with the COB-ID of node 1, error frame with the COB-ID of node 0} that
    holds at least one of the three non-emergency frames, on a two-node bus rig whose consumer
    side is fed through the library's own can.Listener."""
    syms = ["A", "B", "R", "T0", "T1", "E0"]

    def rec(prefix, n):
        if any(len(x) == 2 for x in prefix):
            yield prefix
        if n == 0:
            return
        for a in syms:
            yield from rec(prefix + [a], n - 1)
    i = 0
    for seq in rec([], maxlen):
        i += 1
        ops = [{"op": "cb", "node": 0}]
        for j, a in enumerate(seq):
            if j == len(seq) // 2:
                ops.append({"op": "cb", "node": j % 2})
            if len(a) == 2:
                ops.append({"op": "rtr", "node": int(a[1]), "error": a[0] == "E"})
            else:
                _, code, reg, data = ALPHABET["ABR".index(a)]
                ops.append(_fr(code, reg, data, ts=j + 1, node=(i + j) % 3 // 2))
        yield {"kind": "interleave", "rig": "bus", "listener": True, "ids": [1 + (i % 126), 127], "ops": ops}


def roundtrips():
    codes = [0x0000, 0x00FF, 0x0100, 0x1000, 0x1234, 0x3412, 0x8000, 0x7FFF, 0xFF00, 0xFFFF, 0x00AB, 0xAB00]
    i = 0
    for reg in range(256):
        for n in range(6):
            i += 1
            data = bytes(((reg + 3 * j + 1) % 255) + 1 for j in range(n))
            code = codes[i % len(codes)]
            nid = 1 + (i % 127)
            pre = [{"op": "cb", "node": 0}, _fr(0x2310, 1, b"\x09\x08\x07\x06\x05", ts=7)]
            form = ("all", "kw")[(reg + n) % 2]
            yield {"kind": "roundtrip", "rig": "bus", "ids": [nid],
                   "ops": pre + [{"op": "send", "node": 0, "code": code, "reg": reg, "data": data, "form": form}]}
            yield {"kind": "roundtrip", "rig": "bus", "ids": [nid],
                   "ops": pre + [{"op": "preset", "node": 0, "reg": reg, "data": data, "form": form}]}
        yield {"kind": "roundtrip", "rig": "bus", "ids": [nid],
               "ops": pre + [{"op": "send", "node": 0, "code": code, "reg": reg, "data": b"", "form": "code_reg"}]}
        yield {"kind": "roundtrip", "rig": "bus", "ids": [nid],
               "ops": pre + [{"op": "preset", "node": 0, "reg": reg, "data": b"", "form": "reg"}]}
    for code in codes:
        yield {"kind": "roundtrip", "rig": "bus", "ids": [5],
               "ops": pre + [{"op": "send", "node": 0, "code": code, "reg": 0, "data": b"", "form": "code"}]}
        yield {"kind": "roundtrip", "rig": "bus", "ids": [5 + code % 100, 120], "ctor": "od",
               "ops": pre + [{"op": "send", "node": 0, "code": code, "reg": 3, "data": b"\x01", "form": "all"},
                             {"op": "send", "node": 1, "code": code, "reg": 0, "data": b"", "form": "code"}]}
    yield {"kind": "roundtrip", "rig": "bus", "ids": [5],
           "ops": pre + [{"op": "preset", "node": 0, "reg": 0, "data": b"", "form": "none"}]}


def _wf(code, k=0):
    return {"code": code, "reg": (code + k) & 0xFF, "data": bytes([k & 0xFF, code >> 8, 0, 0, code & 0xFF])}


def wait_enum():
    X, Y, Z = 0x2001, 0x9000, 0x0000
    pres = [[], [_wf(X, 1)], [_wf(X, 1), _wf(Y, 2), _wf(Z, 3)]]
    feeds = [
        [], [[_wf(X)]], [[_wf(Y)]], [[_wf(Z)]], [[_wf(Y)], [_wf(X)]], [[_wf(Y)], [_wf(Z)], [_wf(X)]],
        [[_wf(Y), _wf(X)]], [[_wf(X), _wf(Y)]], [[_wf(Y), _wf(Z)], [_wf(X)]], [[_wf(X)], [_wf(X, 9)]],
        [[_wf(Y, 1), _wf(Y, 2)]], [[_wf(0x2101)], [_wf(0x0120)]],
    ]
    i = 0
    for pre in pres:
        for feed in feeds:
            for filt in (None, X, Z, 0x2000):
                i += 1
                yield {"kind": "wait", "rig": "bus" if i % 3 == 0 else "direct", "pre": pre, "feed": feed,
                       "filter": filt, "form": ("pos", "kw", "timeout_only")[i % 3]}


def codes_st():
    return st.one_of(
        st.integers(0, 0xFF),
        st.integers(0, 0xFF).map(lambda h: h << 8),
        st.integers(0, 0xFF).map(lambda h: (h << 8) | 0xFF),
        st.integers(0x0100, 0x0FFF),
        st.sampled_from([0x0000, 0x0001, 0x00FF, 0x0100, 0x0101, 0x1000, 0xF000, 0xFF00, 0xFFFF, 0xFEFF, 0x8000,
                         0x7FFF, 0x0080, 0x8001, 0x0180]),
        st.integers(0, 0xFFFF),
    )


def _ts(v):
    """One draw -> int or (exactly representable) float timestamp."""
    if v % 4 == 0:
        return v // 4
    if v % 4 == 1:
        return (v // 4) / 1024.0
    if v % 4 == 2:
        return float(v // 4)
    return (v // 4) % 100000


def ts_st():
    return st.integers(0, 2 ** 36).map(_ts)


_FORMS_SEND = ["all", "all", "kw", "code_reg", "code"]
_FORMS_RESET = ["all", "kw", "reg", "none"]


@st.composite
def history(draw, maxlen):
    """Few draws per op (Hypothesis generation dominates the cost of a case):
    one selector (kind, node, buffer type, form), code, 6 bytes (register + data), timestamp."""
    head = draw(st.integers(0, 127 * 126 * 3 - 1))
    rig = ["direct", "bus", "bus"][head % 3]
    a = head // 3 % 127
    b = head // 3 // 127
    if b >= a:
        b += 1
    ids = sorted([a + 1, b + 1])
    n = draw(st.integers(1, maxlen))
    ops = []
    for _ in range(n):
        sel = draw(st.integers(0, 20 * 2 * 2 * 6 * 5 - 1))
        k, node, buf, dlen, form = sel % 20, sel // 20 % 2, sel // 40 % 2, sel // 80 % 6, sel // 480
        if rig == "direct" and k >= 15:
            k = 0
        if k < 11:
            rd = draw(st.binary(min_size=6, max_size=6))
            ops.append(_fr(draw(codes_st()), rd[0], rd[1:], draw(ts_st()), node,
                           buf=["bytes", "bytearray"][buf]))
        elif k < 14:
            ops.append({"op": "cb", "node": node})
        elif k == 14:
            ops.append({"op": "clear", "node": node})
        elif k == 15 and form == 4:
            ops.append({"op": "readd", "node": node})
        elif k == 15 and form == 3:
            ops.append({"op": "rtr", "node": node, "error": bool(buf) and dlen == 0})
        elif k == 15:
            can_id = draw(st.integers(0x80, 0xFF))
            if can_id - 0x80 in ids:
                can_id = 0x80
            ops.append({"op": "noise", "can_id": can_id, "data": draw(st.binary(min_size=8, max_size=8)),
                        "ts": draw(ts_st())})
        elif k < 19:
            rd = draw(st.binary(min_size=6, max_size=6))
            ops.append({"op": "send", "node": node, "code": draw(codes_st()), "reg": rd[0],
                        "data": rd[1:1 + dlen], "form": _FORMS_SEND[form]})
        else:
            rd = draw(st.binary(min_size=6, max_size=6))
            ops.append({"op": "preset", "node": node, "reg": rd[0], "data": rd[1:1 + dlen],
                        "form": _FORMS_RESET[form % 4]})
    return _with_listener({"kind": "history", "rig": rig, "ids": ids, "ops": ops,
                           "ctor": "od" if (rig == "bus" and (ids[0] + len(ops)) % 4 == 0) else "arg"})


def _with_listener(case):
    """Bus histories that hold a remote / error frame, and every other one of the rest, reach the
    consumers through the library's own can.Listener."""
    if case["rig"] == "bus" and (any(o["op"] == "rtr" for o in case["ops"])
                                 or (case["ids"][1] + len(case["ops"])) % 2 == 0):
        case["listener"] = True
    return case


class _Prng:
    """splitmix64: expands one Hypothesis-drawn 64-bit seed into a stream (no use of `random`)."""

    def __init__(self, seed):
        self.x = seed & 0xFFFFFFFFFFFFFFFF

    def next(self):
        self.x = (self.x + 0x9E3779B97F4A7C15) & 0xFFFFFFFFFFFFFFFF
        z = self.x
        z = ((z ^ (z >> 30)) * 0xBF58476D1CE4E5B9) & 0xFFFFFFFFFFFFFFFF
        z = ((z ^ (z >> 27)) * 0x94D049BB133111EB) & 0xFFFFFFFFFFFFFFFF
        return z ^ (z >> 31)

    def below(self, n):
        return self.next() % n


_SPECIAL = [0x0000, 0x0001, 0x00FF, 0x0100, 0x0101, 0x1000, 0xF000, 0xFF00, 0xFFFF, 0xFEFF, 0x8000,
            0x7FFF, 0x0080, 0x8001, 0x0180]


def _code_from(r):
    k = r.below(6)
    if k == 0:
        return r.below(0x100)
    if k == 1:
        return r.below(0x100) << 8
    if k == 2:
        return (r.below(0x100) << 8) | 0xFF
    if k == 3:
        return 0x0100 + r.below(0x0F00)
    if k == 4:
        return _SPECIAL[r.below(len(_SPECIAL))]
    return r.below(0x10000)


def expand_history(seed, n):
    """Deterministic expansion of (seed, n) into a history; the ops of (seed, n-1)
    are a prefix of those of (seed, n), so shrinking n shrinks the history."""
    r = _Prng(seed)
    rig = ["direct", "bus", "bus"][r.below(3)]
    a = r.below(127)
    b = r.below(126)
    if b >= a:
        b += 1
    ids = sorted([a + 1, b + 1])
    # a small per-history code pool makes repeated codes (and error/reset alternation) likely
    pool = [_code_from(r) for _ in range(1 + r.below(4))]
    ops = []
    for _ in range(n):
        k = r.below(20)
        node = r.below(2)
        if rig == "direct" and k >= 15:
            k = 0
        rd = r.next().to_bytes(8, "little")
        code = pool[r.below(len(pool))] if r.below(3) == 0 else _code_from(r)
        if k < 11:
            ops.append(_fr(code, rd[0], rd[1:6], _ts(r.below(2 ** 36)), node, buf=["bytes", "bytearray"][r.below(2)]))
        elif k < 14:
            ops.append({"op": "cb", "node": node})
        elif k == 14:
            ops.append({"op": "clear", "node": node})
        elif k == 15 and r.below(3) == 0:
            ops.append({"op": "readd", "node": node})
        elif k == 15:
            can_id = 0x80 + r.below(0x80)
            if can_id - 0x80 in ids:
                can_id = 0x80
            noise = {"op": "noise", "can_id": can_id, "data": r.next().to_bytes(8, "little"),
                     "ts": _ts(r.below(2 ** 36))}
            if rd[7] % 3 == 0:
                # (same number of stream values consumed) a remote / error frame with the node's own COB-ID
                noise = {"op": "rtr", "node": node, "error": rd[6] % 4 == 0}
            ops.append(noise)
        elif k < 19:
            ops.append({"op": "send", "node": node, "code": code, "reg": rd[0],
                        "data": rd[1:1 + r.below(6)], "form": _FORMS_SEND[r.below(5)]})
        else:
            ops.append({"op": "preset", "node": node, "reg": rd[0], "data": rd[1:1 + r.below(6)],
                        "form": _FORMS_RESET[r.below(4)]})
    return _with_listener({"kind": "history", "rig": rig, "ids": ids, "ops": ops,
                           "ctor": "od" if (rig == "bus" and (ids[0] + len(ops)) % 4 == 0) else "arg"})


def expanded_histories(maxlen):
    return st.tuples(st.integers(0, 2 ** 64 - 1), st.integers(1, maxlen)).map(lambda t: expand_history(*t))


@st.composite
def wait_case(draw):
    pool = draw(st.lists(codes_st(), min_size=1, max_size=4, unique=True))
    code = st.sampled_from(pool)

    def frame():
        return st.builds(lambda c, r, d: {"code": c, "reg": r, "data": d}, code, st.integers(0, 255),
                         st.binary(min_size=5, max_size=5))
    pre = draw(st.lists(frame(), max_size=4))
    silent = draw(st.integers(0, 9)) == 0
    if silent:
        feed = []
    else:
        feed = draw(st.lists(st.lists(frame(), min_size=1, max_size=3), min_size=1, max_size=5))
    filt = draw(st.one_of(st.none(), code, code, st.just(0), codes_st()))
    # keep the number of cases that must run into the (real) time-out small
    return {"kind": "wait", "rig": draw(st.sampled_from(["direct", "direct", "bus"])), "id": draw(st.integers(1, 127)),
            "pre": pre, "feed": feed, "filter": filt,
            "form": draw(st.sampled_from(["pos", "kw", "timeout_only"]))}


def long_enum(thorough):
    """(n, rig, reset_every, callbacks).  n beyond 256 / 1024 / 4096 / 16384 (thorough 65536): sizes somebody would
    pick for a bounded log; reset_every 0 keeps every entry active."""
    plan = [(300, "direct", 0, 1), (300, "bus", 97, 2), (1000, "bus", 0, 0), (1000, "direct", 50, 2),
            (5000, "direct", 1000, 1), (5000, "bus", 0, 1), (20000, "direct", 0, 0)]
    if thorough:
        # one case stays at a few seconds of CPU at most (the runner's watchdog allows a single case 120 s wall)
        plan += [(20000, "bus", 0, 1), (20000, "direct", 97, 2), (70000, "direct", 1000, 1), (33000, "bus", 0, 0),
                 (70000, "direct", 0, 1), (2100, "direct", 0, 2), (2100, "bus", 50, 1), (10100, "direct", 0, 2),
                 (33000, "direct", 97, 0), (10100, "bus", 1000, 1), (600, "bus", 0, 2)]
    for i, (n, rig, every, cbs) in enumerate(plan):
        yield {"kind": "long", "rig": rig, "ids": [1 + (7 * i) % 126, 127], "seed": 0xC16 + i, "n": n,
               "reset_every": every, "cbs": cbs}


def long_st(maxn):
    return st.builds(
        lambda seed, n, rig, every, cbs, a: {"kind": "long", "rig": rig, "ids": [a, 127], "seed": seed, "n": n,
                                             "reset_every": every, "cbs": cbs},
        st.integers(0, 2 ** 64 - 1), st.integers(81, maxn), st.sampled_from(["direct", "bus"]),
        st.sampled_from([0, 0, 7, 50, 300]), st.integers(0, 2), st.integers(1, 126))


def _on(f, node, **kw):
    g = dict(f)
    g["node"] = node
    g.update(kw)
    return g


def wait_seq_enum(thorough):
    X, Y, Z = 0x2001, 0x9000, 0x0000
    i = 0
    rig = None

    def case(calls, pre=(), **kw):
        nonlocal i
        i += 1
        c = {"kind": "wait_seq", "rig": rig or ("bus" if i % 2 else "direct"), "ids": [1 + (11 * i) % 126, 127],
             "cbs": i % 3, "pre": list(pre), "calls": calls}
        c.update(kw)
        return c

    def call(filt, feed, gap=(), **kw):
        c = {"filter": filt, "form": ("pos", "kw", "timeout_only")[(i + len(feed)) % 3], "gap": list(gap), "feed": feed}
        c.update(kw)
        return c
    # consecutive calls on one consumer; frames arrive while nobody waits
    for f1 in (None, X):
        for f2 in (None, X, Y):
            for rig in ("direct", "bus"):
                yield case([call(f1, [[_wf(X)]]), call(f2, [], gap=[_wf(Y, 1)])])
                yield case([call(f1, [[_wf(X)]]), call(f2, [], gap=[_wf(Y, 1), _wf(X, 2), _wf(Z, 3)])])
                yield case([call(f1, [[_wf(Y), _wf(X)], [_wf(Y, 5)]]), call(f2, [[_wf(Y, 4)], [_wf(X, 4)]], gap=[_wf(X, 2)]),
                            call(f2, [], gap=[_wf(Y, 6)])], pre=[_wf(X, 7)])
                yield case([call(f2, [[_wf(Z)]]), call(f1, [[_wf(X, 1)]], gap=[_wf(X, 2), _wf(Y, 2)]),
                            call(f2, [[_wf(0x2101)]], gap=[_wf(Y, 3)])])
    # a second node (and foreign COB-IDs) is active while the caller waits on the first
    noise = {"node": "noise", "can_id": 0x80, "code": X, "reg": 1, "data": bytes(5)}
    noise2 = {"node": "noise", "can_id": 0xFE, "code": X, "reg": 1, "data": bytes(5)}
    for filt in (None, X):
        for rig in ("direct", "bus"):
            yield case([call(filt, [[_on(_wf(Y), 1)], [_wf(X)]])])
            yield case([call(filt, [[_on(_wf(X, 3), 1)], [_on(_wf(Z), 1)], [_wf(X)]])])
            yield case([call(filt, [[_on(_wf(X, 3), 1), _on(_wf(Y), 1)], [noise], [_wf(X)]])])
            yield case([call(filt, [[_on(_wf(X, 3), 1), _wf(X), _on(_wf(X, 4), 1)]])])
            yield case([call(filt, [[noise2], [_on(_wf(X, 1), 1)], [_wf(X, 2)]]),
                        call(filt, [[_on(_wf(X, 3), 1)], [_wf(X, 4)]], gap=[_on(_wf(X, 5), 1), _wf(Y)])],
                       pre=[_on(_wf(X), 1)])
            yield case([call(X, [[_on(_wf(X, 1), 1)], [_on(_wf(X, 2), 1), noise]])])        # nothing for the waited node
            yield case([call(X, [[_wf(Y)], [_on(_wf(X, 1), 1)], [_wf(Z)], [_on(_wf(X, 2), 1)], [_wf(X)]])])
    # remote / error frames with the waited node's own EMCY COB-ID arrive while the caller is blocked
    # (through the library's can.Listener): they are not emergency frames, nothing is handed over
    rtr = {"node": "noise", "of": 0, "not_emcy": "remote"}
    rtr1 = {"node": "noise", "of": 1, "not_emcy": "remote"}
    err = {"node": "noise", "of": 0, "not_emcy": "error"}
    rig = "bus"
    for filt in (None, Z, X):
        yield case([call(filt, [[rtr], [_wf(Z if filt == Z else X)]])], pre=[_wf(X, 5)], listener=True)
        yield case([call(filt, [[err], [rtr1, rtr], [_wf(Y)], [rtr]] + ([] if filt is None else [[_wf(filt, 1)]])),
                    call(filt, [], gap=[rtr, _wf(X, 2), err])], pre=[_wf(Y, 5)], listener=True)
        yield case([call(filt, [[rtr, rtr1]])], listener=True)
        yield case([call(filt, [[_wf(Y) if filt is not None else rtr1], [rtr, _wf(Z if filt == Z else X, 3)]])],
                   listener=True)
    # timing: two or more non-matching frames arrive at separate moments of the waiting time, the
    # matching one later but still before the time-out (the time-out is a bound for the whole call;
    # whatever arrives before it has passed is handed over)
    shapes = [(3.0, [1.2, 0.45, 0.2], [Y, Z, X]), (3.0, [0.6, 0.5, 0.4, 0.2], [Y, 0x2101, Y, X])]
    if thorough:
        shapes += [(2.0, [0.8, 0.3, 0.15], [Y, Y, X]), (5.0, [1.0, 1.0, 1.0, 0.5], [Y, Z, Y, X]),
                   (3.0, [0.3, 0.3, 0.3, 0.3, 0.3, 0.3], [Y, Z, Y, Z, Y, X]), (4.0, [1.7, 0.6, 0.3], [Z, Y, X]),
                   (3.0, [1.2, 0.45, 0.2], [Y, Z, None])]
    for T, delays, codes in shapes:
        rig = None
        filt = X if codes[-1] == X else None
        feed = [[_wf(c if c is not None else Y, j)] for j, c in enumerate(codes)]
        yield case([call(filt, feed, delays=delays, timeout=T)])
        if thorough:
            feed2 = [[_on(_wf(X, 7), 1), feed[0][0]]] + feed[1:]
            yield case([call(X, [[_wf(Y)]], gap=[_wf(X, 9)], timeout=0.3),
                        call(filt, feed2, delays=delays, timeout=T)], pre=[_wf(X, 8)])
    # ... and only non-matching ones: nothing, and not before the time-out
    for T, delays in [(1.5, [0.5, 0.4])] + ([(1.5, [0.3, 0.3, 0.3]), (3.0, [1.2, 0.6])] if thorough else []):
        yield case([call(X, [[_wf(Y, j)] for j in range(len(delays))], delays=delays, timeout=T)])
    # many non-matching frames, each a wake-up of its own, at a steady pace; then the matching one,
    # a small fraction of the (20 s) time-out after the call
    for n, pace in [(70, 0.02)] + ([(30, 0.1), (150, 0.01), (12, 0.4)] if thorough else []):
        for rig in ("direct", "bus"):
            feed = [[_wf((Y, Z, 0x2101)[j % 3], j)] for j in range(n)] + [[_wf(X)]]
            yield case([call(X, feed, delays=[pace] * (n + 1))])
    rig = None      # alternating from here on
    # a long log before the call
    for n in (300, 1030) + ((4200, 17000) if thorough else ()):
        for filt in (None, X):
            yield case([call(filt, [[_wf(Y)], [_wf(X)]]), call(filt, [[_wf(X, 1)]], gap=[_wf(X, 2)])],
                       pre_long=n, seed=n + 1)
    # timing: the matching frame arrives late but well within the time-out
    for d in (0.3, 1.3) + ((2.5, 5.5) if thorough else ()):
        yield case([call(X if i % 2 else None, [[_wf(X)]], delay=d)])
        if thorough:
            yield case([call(X, [[_on(_wf(X, 1), 1)], [_wf(X)]], delay=d), call(None, [[_wf(Y)]], gap=[_wf(Y, 1)], delay=d / 2)])
    # timing: silence, nothing may be reported before the time-out
    for t in (0.25, 1.4) + ((3.0,) if thorough else ()):
        yield case([call(X if i % 2 else None, [], timeout=t)])
        if thorough:
            yield case([call(None, [[_wf(X)]]), call(None, [], gap=[_wf(X, 1)], timeout=t)])
    # timing: non-matching traffic goes on far beyond the time-out
    for rig in ("direct", "bus"):
        yield case([call(X, [], flood=[_wf(Y)])])
        yield case([call(X, [], flood=[_wf(Y), _wf(Z), _on(_wf(X, 1), 1)])])
        yield case([call(Z, [], flood=[_wf(0x0100), _wf(X)]), call(None, [[_wf(X)]])], pre=[_wf(Z)])


@st.composite
def wait_seq_case(draw):
    pool = draw(st.lists(codes_st(), min_size=1, max_size=3, unique=True))
    code = st.sampled_from(pool)
    rig = draw(st.sampled_from(["direct", "bus"]))
    a = draw(st.integers(1, 126))
    nodes = [0, 0, 0, 1, 1] + (["noise", "noise"] if rig == "bus" else [])

    def mk(c, r, d, node):
        f = {"code": c, "reg": r, "data": d, "node": node}
        if node == "noise" and r % 2:
            # remote / error frame with the EMCY COB-ID of one of the two nodes
            return {"node": "noise", "of": r // 2 % 2, "not_emcy": "error" if r // 4 % 4 == 0 else "remote"}
        if node == "noise":
            nid = (a + 1 + r % 125) % 128           # a COB-ID 0x80..0xFF that is not one of the two nodes' EMCY ids
            f["can_id"] = 0x80 + (0 if nid in (a, 127) else nid)
        return f
    frame = st.builds(mk, code, st.integers(0, 255), st.binary(min_size=5, max_size=5), st.sampled_from(nodes))
    own = st.builds(mk, code, st.integers(0, 255), st.binary(min_size=5, max_size=5), st.just(0))
    pre = draw(st.lists(frame, max_size=3))
    calls = []
    for _ in range(draw(st.integers(1, 3))):
        gap = draw(st.lists(frame, max_size=2))
        if draw(st.integers(0, 7)) == 0:
            feed = []
        else:
            feed = draw(st.lists(st.lists(frame, min_size=1, max_size=3), min_size=1, max_size=3))
            if draw(st.integers(0, 2)):
                feed.append([draw(own)])         # most calls end in a frame of the waited node
        calls.append({"filter": draw(st.one_of(st.none(), code, code, st.just(0))),
                      "form": draw(st.sampled_from(["pos", "kw", "timeout_only"])), "gap": gap, "feed": feed})
    c = {"kind": "wait_seq", "rig": rig, "ids": [a, 127], "cbs": draw(st.integers(0, 2)), "pre": pre, "calls": calls}
    if rig == "bus" and (a % 2 or any("not_emcy" in f for cl in calls for b in [cl["gap"]] + cl["feed"] for f in b)
                         or any("not_emcy" in f for f in pre)):
        c["listener"] = True
    nlong = draw(st.sampled_from([0, 0, 0, 0, 0, 0, 0, 257, 300, 1030]))
    if nlong:
        c["pre_long"] = nlong
        c["seed"] = draw(st.integers(0, 2 ** 32))
    return c


@st.composite
def wait_timed_case(draw):
    """One wait(code, T) with T of 1.5 .. 3 s during which 2..4 frames arrive at drawn moments
    (twentieths of T after the caller blocked (again), in total at most 0.7 T); the last one matches
    the filter (or, one case in five, none does: nothing, and not before the time-out)."""
    T = draw(st.sampled_from([1.5, 2.0, 3.0]))
    n = draw(st.integers(2, 4))
    steps = draw(st.lists(st.integers(1, 8), min_size=n + 1, max_size=n + 1))
    scale = min(1.0, 14.0 / sum(steps))
    delays = [round(T * k * scale / 20.0, 3) for k in steps]
    other = st.sampled_from([0x9000, 0x0000, 0x2101, 0x2000])
    hit = draw(st.integers(0, 4)) != 0
    feed = []
    for j in range(n):
        b = [_wf(draw(other), j)]
        if draw(st.integers(0, 3)) == 0:
            b.insert(0, _on(_wf(0x2001, 20 + j), 1))          # the waited code, but from the other node
        feed.append(b)
    if hit:
        feed.append([_wf(0x2001, 9)])
    else:
        delays = delays[:n]
    rig = draw(st.sampled_from(["direct", "bus"]))
    return {"kind": "wait_seq", "rig": rig, "ids": [draw(st.integers(1, 126)), 127], "cbs": draw(st.integers(0, 1)),
            "pre": [_wf(0x2001, 30)] if draw(st.booleans()) else [],
            "calls": [{"filter": 0x2001, "form": draw(st.sampled_from(["pos", "kw"])), "gap": [], "feed": feed,
                       "delays": delays, "timeout": T}]}


def _close_multi(ops):
    """Append frames of the waited node until every caller has a match after its start."""
    pending = []
    for o in ops:
        if o["op"] == "call":
            pending.append(o["filter"])
        elif o.get("node", 0) == 0:
            pending = [f for f in pending if f is not None and f != o["code"]]
    out = list(ops)
    k = 0
    while pending:
        code = next((f for f in pending if f is not None), 0x1000)
        k += 1
        out.append({"op": "frame", "node": 0, "code": code, "reg": k, "data": bytes([k, 0, 0, 0, 0xEE])})
        pending = [f for f in pending if f is not None and f != code]
    return out


def wait_multi_enum():
    X, Y, Z = 0x2001, 0x9000, 0x0000

    def fr(code, k=0, node=0):
        f = _on(_wf(code, k), node)
        f["op"] = "frame"
        return f

    def call(f):
        return {"op": "call", "filter": f}
    plans = [
        [call(X), call(Y), fr(X), fr(Y)], [call(Y), call(X), fr(X), fr(Y)], [call(X), call(Y), fr(Y), fr(X)],
        [call(X), call(None), fr(Y), fr(X)], [call(None), call(X), fr(Y, 1), fr(Y, 2), fr(X)],
        [call(X), fr(Y), call(Y), fr(Y, 1), fr(X)], [call(X), fr(X, 1, 1), call(Y), fr(Y, 1, 1), fr(X), fr(Y)],
        [call(Z), call(X), call(Y), fr(X), fr(Y), fr(Z)], [call(X), call(X), call(Y), fr(Z), fr(Y), fr(X)],
        [call(Y), fr(X), call(None), call(X), fr(Z), fr(X, 1), fr(Y)],
        [call(X), call(Y), call(Z), call(None), fr(0x0100), fr(Z), fr(Y), fr(X)],
    ]
    for i, ops in enumerate(plans):
        for rig in ("direct", "bus"):
            yield {"kind": "wait_multi", "rig": rig, "ids": [1 + (13 * i) % 126, 127], "ops": _close_multi(ops)}


@st.composite
def wait_multi_case(draw):
    pool = draw(st.lists(codes_st(), min_size=2, max_size=3, unique=True))
    code = st.sampled_from(pool)
    filt = st.one_of(code, code, code, st.none())
    call = st.builds(lambda f: {"op": "call", "filter": f}, filt)
    frame = st.builds(lambda c, r, d, n: {"op": "frame", "node": n, "code": c, "reg": r, "data": d},
                      code, st.integers(0, 255), st.binary(min_size=5, max_size=5), st.sampled_from([0, 0, 0, 1]))
    ops = [draw(call)] + draw(st.lists(st.one_of(call, frame, frame), min_size=1, max_size=8))
    ncalls = 0
    kept = []
    for o in ops:
        if o["op"] == "call":
            ncalls += 1
            if ncalls > 4:
                continue
        kept.append(o)
    return {"kind": "wait_multi", "rig": draw(st.sampled_from(["direct", "bus"])), "ids": [draw(st.integers(1, 126)), 127],
            "ops": _close_multi(kept)}


def _showcase():
    yield {"kind": "code", "code": 0x8130}
    yield expand_history(4, 14)
    yield next(c for c in wait_enum() if c["pre"] and len(c["feed"]) == 3 and c["filter"] == 0x2001)
    yield next(c for c in roundtrips() if len(c["ops"][-1]["data"]) == 3)
    yield next(c for i, c in enumerate(interleavings(4)) if i == 15)
    yield next(c for c in wait_seq_enum(False) if len(c["calls"]) == 3)
    yield next(long_enum(False))
    yield next(c for c in not_emcy_interleavings(3) if len(c["ops"]) == 5)


def _spread(cases, nshards):
    """ctx.enumerate hands item i to shard i % nshards; pad so that shard 0 gets every case."""
    for c in cases:
        yield c
        for _ in range(nshards - 1):
            yield None


def search(ctx):
    thorough = ctx.tier == "thorough"
    if ctx.shard == 0:
        # one case of every kind first (they recur below): makes the evidence samples span the families
        ctx.enumerate(_spread(_showcase(), ctx.nshards))
    ctx.enumerate(interleavings(6 if thorough else 4),
                  "every error/reset/near-reset interleaving up to length %d" % (6 if thorough else 4))
    ctx.enumerate(not_emcy_interleavings(5 if thorough else 4),
                  "every sequence up to length %d over errors, reset and remote / error frames with an EMCY COB-ID "
                  "(at least one of the latter), through the library's can.Listener" % (5 if thorough else 4))
    ctx.enumerate(wait_enum(), "wait: 3 pre-histories x 12 feed shapes x 4 filters")
    ctx.enumerate(wait_many_enum(), "wait: 2..4 concurrent callers x filter mixes, one matching frame")
    ctx.enumerate(roundtrips(), "producer round trip: every register x data length 0..5 x send/reset")
    ctx.enumerate(wait_multi_enum(), "wait: 2..4 concurrent callers with different filters started at different points "
                  "of a frame sequence, 11 plans x 2 rigs")
    ctx.enumerate(long_enum(thorough), "long histories: 300..20000 frames (thorough ..70000), with and without resets")
    ctx.enumerate(wait_seq_enum(thorough), "wait: consecutive calls on one consumer / a second node and foreign COB-IDs "
                  "active / long log / late match, silence and endless non-matching traffic against the time-out")
    ctx.enumerate(({"kind": "code", "code": c} for c in range(0x10000)),
                  "all 65536 codes: description, decode, reset classification")
    # the bulk (seed-expanded histories, cheapest per case) comes last and in chunks, so that a
    # budget that runs out (loaded machine) cuts only there and no generation is done for nothing
    ctx.hypothesis(history(60 if thorough else 30), 2500 if thorough else 500, salt=1)
    if not ctx.over_budget():
        ctx.hypothesis(wait_case(), 1000 if thorough else 250, salt=2)
    if not ctx.over_budget():
        ctx.hypothesis(wait_seq_case(), 800 if thorough else 200, salt=3)
    if not ctx.over_budget():
        ctx.hypothesis(wait_multi_case(), 600 if thorough else 150, salt=5)
    if not ctx.over_budget():
        ctx.hypothesis(wait_timed_case(), 12 if thorough else 3, salt=6)
    if not ctx.over_budget():
        ctx.hypothesis(long_st(6000 if thorough else 1500), 60 if thorough else 15, salt=4)
    for chunk in range(8 if thorough else 2):
        if ctx.over_budget():
            break
        ctx.hypothesis(expanded_histories(80 if thorough else 40), 5000 if thorough else 2500, salt=10 + chunk)
