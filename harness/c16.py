"""C16 - the EMCY consumer's log and active list mirror the received history.

SUT: canopen.emcy.EmcyConsumer (on_emcy, add_callback, reset, wait),
EmcyProducer (send, reset), EmcyError (get_desc, str), reached both directly
and through LocalNode.emcy -> simulated bus -> RemoteNode.emcy.

Clause -> case family
  (a) "log holds one entry per frame in arrival order with code, register,
      five manufacturer bytes and timestamp"
        history/* (after every step the whole log is compared with a list
        model; frames are decoded by hand from the 8 bytes), code/* (every one
        of the 65 536 codes is decoded once), interleave/*.
  (b) "active list holds exactly the entries received since the last
      error-reset frame"
        interleave/* (every sequence up to length 4..6 over two errors, two
        resets 0x0000/0x00FF and the near-reset 0x0100), code/* (reset
        classification of every 16-bit code between two errors), history/*.
  (c) "every registered callback is invoked once per frame in order"
        history/* and interleave/* with add_callback ops anywhere in the
        history; the global invocation record (callback id, entry fields) is
        compared after every step.
  (d) "a waiting caller is handed the next matching entry or nothing on
      time-out"
        wait/*: a waiter thread calls wait() with/without a code filter (incl.
        filter 0) after a generated pre-history; the main thread feeds
        generated frames one wake-up at a time (or several at once while the
        waiter cannot run) and silence.
  (e) "a message sent by the producer is decoded by the consumer into the same
      code, register and data (zero-padded to five bytes)"
        roundtrip/* (all registers x all data lengths 0..5, send and reset with
        every default-argument form) and send/preset ops inside history/bus;
        the frame on the wire is additionally compared with a hand encoding
        (COB-ID 0x80+node, 8 bytes, little-endian code).
  (f) "every code maps to its CiA 301 error class description"
        code/*: all 65 536 codes against an independent table of the CiA 301
        emergency error classes (keyword relation, see _check_desc).
"""
import queue
import threading
import time

from hypothesis import strategies as st

from harness.core import Discrepancy, Outcome
from harness.simbus import Frame, Hub

PROPERTY = "C16"
LEVEL = "exploration"
RULE = ("case kinds: code (one per 16-bit code, exhaustive: description relation + decode + reset "
        "classification between two errors), interleave (every sequence up to length 4 quick / 6 thorough over "
        "{error A, error B, reset 0x0000, reset 0x00FF, near-reset 0x0100}, alternately on a bare consumer and through the bus, "
        "callbacks registered before/in the middle), roundtrip (producer send/reset for all registers x data "
        "lengths 0..5 x argument forms), history (Hypothesis, drawn op by op and - cheaper, so in larger number - "
        "expanded from a drawn 64-bit seed by a splitmix64 stream: 1..40 (thorough 80) ops on two consumers: raw 8-byte frames with "
        "codes biased to 0x00xx, xx00/xxFF, 0x01xx..0x0Fxx, registers 0..255, any 5 data bytes, int/float "
        "timestamps; add_callback; reset(); producer send/reset through the bus; foreign COB-IDs), wait "
        "(pre-history, filter or none, fed bursts, silence). Oracle: list model written from the property text "
        "and the CiA 301 frame layout / error class table. Non-trivial: history or interleaving with an error "
        "before and an error after a reset frame on the same consumer; wait case with a pre-history or >= 2 fed "
        "frames; roundtrip with 1..4 data bytes (padding visible); code cases are counted as trivial. "
        "distinct = canonical JSON of the case.")
ASSUMPTIONS = [
    "an emergency frame has exactly 8 data bytes (CiA 301); shorter frames are outside the property's domain",
    "producer arguments are in range: code 0..0xFFFF, register 0..255, at most 5 data bytes",
    "each registered callback is a distinct callable that does not raise",
    "wait(): the waiter's public condition object `emcy_received` is replaced by a threading.Condition subclass "
    "that only reports 'about to wait' (observation only); frames are delivered while the waiter is known to be "
    "blocked, so only 'returned the wrong entry / nothing although a matching frame arrived / something although "
    "none arrived' is decided, never scheduling",
    "wait() expecting a hit uses a 20 s time-out (a return of None within 10 s is 'gave up before the time-out'); "
    "wait() expecting nothing uses 10 ms",
    "description relation: a code inside a CiA 301 class must carry that class's keyword; a code outside every "
    "class may have an empty description or one of a class sharing its high nibble (0x01xx..0x0Fxx: must not be "
    "described as error reset, they are not reset frames)",
]
BUDGET = {"quick": 150, "thorough": 330}

KNOWN_WAIT_DEFECT = ("wait: the first matching frame is followed by another frame logged before the waiter "
                     "wakes up (genuine defect: wait() inspects only log[-1])")
HIT_TIMEOUT = 20.0
MISS_TIMEOUT = 0.01
GUARD = 30.0


# ---- reference: CiA 301 emergency object ------------------------------------------
def ref_decode(data8):
    """Emergency object: bytes 0-1 error code (LSB first), byte 2 error register,
    bytes 3-7 manufacturer specific."""
    b = bytes(data8)
    assert len(b) == 8
    return (b[0] + 256 * b[1], b[2], b[3:8])


def ref_encode(code, register, data):
    return bytes([code % 256, code // 256, register]) + bytes(data) + bytes(5 - len(data))


def is_reset(code):
    """CiA 301: error code 00xx = error reset / no error."""
    return code < 0x100


class Model:
    def __init__(self):
        self.log = []
        self.active = []
        self.cbs = []
        self.calls = []

    def frame(self, fields):
        if is_reset(fields[0]):
            self.active = []
        else:
            self.active.append(fields)
        self.log.append(fields)
        for cb in self.cbs:
            self.calls.append((cb, fields))

    def clear(self):
        self.log = []
        self.active = []


# CiA 301 table "emergency error code classes": high byte -> accepted keywords
_FAMILY = {
    "reset": ("reset", "no error"),
    "generic": ("generic",),
    "current": ("current",),
    "voltage": ("voltage",),
    "temperature": ("temperature",),
    "hardware": ("hardware",),
    "software": ("software", "data set"),
    "modules": ("module",),
    "monitoring": ("monitoring", "communication", "protocol"),
    "external": ("external",),
    "functions": ("additional function",),
    "specific": ("specific",),
}
_CLASSES = {
    0x00: ("reset", ("reset", "no error")),
    0x10: ("generic", ("generic",)),
    0x20: ("current", ("current",)), 0x21: ("current", ("current",)),
    0x22: ("current", ("current",)), 0x23: ("current", ("current",)),
    0x30: ("voltage", ("voltage",)), 0x31: ("voltage", ("voltage",)),
    0x32: ("voltage", ("voltage",)), 0x33: ("voltage", ("voltage",)),
    0x40: ("temperature", ("temperature",)), 0x41: ("temperature", ("temperature",)),
    0x42: ("temperature", ("temperature",)),
    0x50: ("hardware", ("hardware",)),
    0x60: ("software", ("software",)), 0x61: ("software", ("software",)),
    0x62: ("software", ("software",)), 0x63: ("software", ("software", "data set")),
    0x70: ("modules", ("module",)),
    0x80: ("monitoring", ("monitoring",)), 0x81: ("monitoring", ("monitoring", "communication")),
    0x82: ("monitoring", ("monitoring", "protocol")),
    0x90: ("external", ("external",)),
    0xF0: ("functions", ("additional function",)),
    0xFF: ("specific", ("specific",)),
}


def _allowed_families(code):
    hi = code >> 8
    if hi in _CLASSES:
        return {_CLASSES[hi][0]}
    if hi >> 4 == 0:
        return set()        # 0x01xx..0x0Fxx are not reset frames
    return {fam for h, (fam, _) in _CLASSES.items() if h >> 4 == hi >> 4}


def _check_desc(code, D):
    from canopen.emcy import EmcyError
    err = EmcyError(code, 0, b"\x00" * 5, 0)
    try:
        desc = err.get_desc()
        text = str(err)
    except Exception as e:
        D.append(Discrepancy("C16/desc/raises", f"code 0x{code:04X}: {type(e).__name__}: {e}"))
        return
    if not isinstance(desc, str) or not isinstance(text, str):
        D.append(Discrepancy("C16/desc/type", f"code 0x{code:04X}: get_desc() -> {desc!r}, str() -> {text!r}"))
        return
    hi = code >> 8
    allowed = _allowed_families(code)
    low = desc.lower()
    if hi in _CLASSES:
        fam, req = _CLASSES[hi]
        if not any(k in low for k in req):
            D.append(Discrepancy("C16/desc/class-keyword-missing",
                                 f"code 0x{code:04X} is in CiA 301 class {hi:02X}xx ({fam}); get_desc() = {desc!r}"))
            return
    for view, s in (("get_desc", low), ("str", text.lower())):
        for fam, kws in _FAMILY.items():
            if fam in allowed:
                continue
            hit = [k for k in kws if k in s]
            if hit:
                D.append(Discrepancy("C16/desc/foreign-class",
                                     f"code 0x{code:04X}: {view}() = {(desc if view == 'get_desc' else text)!r} "
                                     f"names class family '{fam}', allowed {sorted(allowed) or 'none'}"))
                return


# ---- rig ------------------------------------------------------------------------
def _fields(e):
    return (e.code, e.register, bytes(e.data), e.timestamp)


def _show(f):
    return f"(0x{f[0]:04X}, reg {f[1]}, {f[2].hex()}, ts {f[3]!r})" if isinstance(f[0], int) else repr(f)


def _showl(lst):
    return "[" + ", ".join(_show(f) for f in lst[-6:]) + f"] ({len(lst)} entries)"


class Rig:
    def __init__(self, kind, ids, ctor="arg"):
        from canopen.emcy import EmcyConsumer
        self.kind = kind
        self.ids = list(ids)
        self.models = [Model() for _ in ids]
        self.calls = [[] for _ in ids]
        self.ncb = 0
        if kind == "direct":
            self.consumers = [EmcyConsumer() for _ in ids]
        else:
            import canopen
            self.hub = Hub()
            self.net_p, self.port_p = self.hub.attach("producers")
            self.net_c, self.port_c = self.hub.attach("consumers")
            self.locals = []
            self.remotes = []
            for k, i in enumerate(ids):
                lod, rod = canopen.ObjectDictionary(), canopen.ObjectDictionary()
                if ctor == "od":
                    # the node id is taken from the dictionary (constructor argument None / 0)
                    lod.node_id = rod.node_id = i
                ln = canopen.LocalNode((0, None)[k % 2] if ctor == "od" else i, lod)
                self.net_p.add_node(ln)
                self.locals.append(ln)
                rn = canopen.RemoteNode((None, 0)[k % 2] if ctor == "od" else i, rod)
                self.net_c.add_node(rn)
                self.remotes.append(rn)
            self.consumers = [rn.emcy for rn in self.remotes]

    def add_callback(self, k):
        cid = self.ncb
        self.ncb += 1
        rec = self.calls[k]

        def cb(entry, cid=cid, rec=rec):
            rec.append((cid, _fields(entry)))
        self.consumers[k].add_callback(cb)
        self.models[k].cbs.append(cid)

    def raw_frame(self, k, data8, ts, buf="bytes"):
        """Deliver one 8-byte emergency frame of node k; returns the timestamp the
        consumer was given."""
        can_id = 0x80 + self.ids[k]
        if self.kind == "direct":
            payload = bytes(data8) if buf == "bytes" else bytearray(data8)
            self.consumers[k].on_emcy(can_id, payload, ts)
            return ts
        fr = Frame(can_id, bytes(data8), ts=ts)
        self.hub.inject(fr)
        return fr.ts

    def bus_errors(self):
        if self.kind != "bus":
            return []
        errs = self.port_c.notify_errors + self.port_p.notify_errors
        return errs


def _compare(rig, D, tag, last_was_reset):
    for k, c in enumerate(rig.consumers):
        m = rig.models[k]
        who = f"{tag}, consumer of node {rig.ids[k]}"
        try:
            got_log = [_fields(e) for e in c.log]
            got_act = [_fields(e) for e in c.active]
        except Exception as e:
            D.append(Discrepancy("C16/observe/raises", f"{who}: reading log/active: {type(e).__name__}: {e}"))
            return
        if got_log != m.log:
            if len(got_log) != len(m.log):
                sig = "count"
            else:
                i = next(i for i in range(len(got_log)) if got_log[i] != m.log[i])
                names = ("code", "register", "data", "timestamp")
                sig = next((names[j] for j in range(4) if got_log[i][j] != m.log[i][j]), "entry")
            D.append(Discrepancy(f"C16/log/{sig}", f"{who}: log = {_showl(got_log)} want {_showl(m.log)}"))
            return
        if got_act != m.active:
            sig = "after-reset" if last_was_reset else "after-error"
            D.append(Discrepancy(f"C16/active/{sig}",
                                 f"{who}: active = {_showl(got_act)} want {_showl(m.active)}"))
            return
        if rig.calls[k] != m.calls:
            got, want = rig.calls[k], m.calls
            if len(got) != len(want):
                sig = "count"
            elif [g[0] for g in got] != [w[0] for w in want]:
                sig = "order"
            else:
                sig = "entry"
            D.append(Discrepancy(f"C16/callbacks/{sig}",
                                 f"{who}: invocations (callback id, entry) = {got[-6:]} ({len(got)}) "
                                 f"want {want[-6:]} ({len(want)})"))
            return


def _run_ops(rig, ops, D):
    """Interpret a history; returns feature dict."""
    feat = {"producer": False, "cb": False, "clear": False, "noise": False,
            "nframes": 0, "nresets": 0, "between": False}
    # per consumer: 0 nothing, 1 error seen, 2 error then reset, 3 error, reset, error
    phase = [0 for _ in rig.ids]
    for n, op in enumerate(ops):
        kind = op["op"]
        k = op.get("node", 0)
        tag = f"step {n} ({kind})"
        last_reset = False
        try:
            if kind == "frame":
                code, reg, data = op["code"], op["reg"], bytes(op["data"])
                wire = ref_encode(code, reg, data)
                assert ref_decode(wire) == (code, reg, data)      # harness self-check
                ts = rig.raw_frame(k, wire, op["ts"], op.get("buf", "bytes"))
                rig.models[k].frame((code, reg, data, ts))
                tag = f"step {n} (frame {wire.hex()} for node {rig.ids[k]})"
                fcode = code
            elif kind in ("send", "preset"):
                feat["producer"] = True
                prod = rig.locals[k].emcy
                data = bytes(op["data"])
                reg = op["reg"]
                nsent = len(rig.port_p.sent)
                if kind == "send":
                    fcode = op["code"]
                    form = op["form"]
                    if form == "code":          # defaults: register 0, no data
                        reg, data = 0, b""
                        prod.send(fcode)
                    elif form == "code_reg":
                        data = b""
                        prod.send(fcode, reg)
                    elif form == "kw":
                        prod.send(code=fcode, register=reg, data=data)
                    else:
                        prod.send(fcode, reg, data)
                else:
                    fcode = 0
                    form = op["form"]
                    if form == "none":
                        reg, data = 0, b""
                        prod.reset()
                    elif form == "reg":
                        data = b""
                        prod.reset(reg)
                    elif form == "kw":
                        prod.reset(register=reg, data=data)
                    else:
                        prod.reset(reg, data)
                tag = f"step {n} ({kind} code 0x{fcode:04X} reg {reg} data {data.hex()} form {form}, node {rig.ids[k]})"
                new = rig.port_p.sent[nsent:]
                want = ref_encode(fcode, reg, data)
                if (len(new) != 1 or new[0].can_id != 0x80 + rig.ids[k] or new[0].data != want
                        or new[0].remote or new[0].extended):
                    D.append(Discrepancy("C16/producer/wire",
                                         f"{tag}: frames on the bus {new} want one frame "
                                         f"{0x80 + rig.ids[k]:X}#{want.hex()}"))
                    return feat
                rig.models[k].frame((fcode, reg, data + bytes(5 - len(data)), new[0].ts))
            elif kind == "cb":
                feat["cb"] = True
                rig.add_callback(k)
                continue
            elif kind == "clear":
                feat["clear"] = True
                rig.consumers[k].reset()
                rig.models[k].clear()
                phase[k] = 0
                fcode = None
            elif kind == "noise":
                feat["noise"] = True
                rig.hub.inject(Frame(op["can_id"], bytes(op["data"]), ts=op["ts"]))
                fcode = None
            elif kind == "readd":
                # the node object is handed to its network once more: nothing changes for the consumer
                feat["noise"] = True
                if rig.kind != "direct":
                    rig.net_c.add_node(rig.remotes[k])
                fcode = None
            else:
                raise ValueError(kind)
        except Exception as e:
            if kind not in ("frame", "send", "preset", "clear", "noise", "readd"):
                raise
            D.append(Discrepancy(f"C16/raises/{kind}", f"{tag}: {type(e).__name__}: {e}"))
            return feat
        errs = rig.bus_errors()
        if errs:
            fr, e = errs[0]
            D.append(Discrepancy("C16/raises/notify", f"{tag}: delivering {fr} raised {type(e).__name__}: {e}"))
            return feat
        if fcode is not None:
            feat["nframes"] += 1
            if is_reset(fcode):
                last_reset = True
                feat["nresets"] += 1
                if phase[k] == 1:
                    phase[k] = 2
            else:
                if phase[k] == 0:
                    phase[k] = 1
                elif phase[k] == 2:
                    phase[k] = 3
                    feat["between"] = True
        _compare(rig, D, tag, last_reset)
        if D:
            return feat
    return feat


def _run_history(case):
    D = []
    rig = Rig(case["rig"], case["ids"], case.get("ctor", "arg"))
    feat = _run_ops(rig, case["ops"], D)
    if case["kind"] == "interleave":
        klass = f"interleave/len{sum(1 for o in case['ops'] if o['op'] == 'frame')}"
    elif case["kind"] == "roundtrip":
        op = case["ops"][-1]
        klass = f"roundtrip/{op['op']}/{op['form']}/data{len(op['data'])}"
        return Outcome(0 < len(op["data"]) < 5 and op["form"] in ("kw", "all"), klass, D)
    else:
        n = feat["nframes"]
        size = "1-3" if n <= 3 else "4-10" if n <= 10 else "11+"
        shape = ("reset-between-errors" if feat["between"] else
                 "with-reset" if feat["nresets"] else "errors-only" if n else "no-frames")
        klass = (f"history/{case['rig']}/{shape}/frames{size}"
                 + ("/producer" if feat["producer"] else "")
                 + ("/cb" if feat["cb"] else "")
                 + ("/clear" if feat["clear"] else ""))
    return Outcome(feat["between"], klass, D)


# ---- code cases -------------------------------------------------------------------
def _run_code(case):
    code = case["code"]
    D = []
    _check_desc(code, D)
    if not D:
        rig = Rig("direct", [1])
        rig.add_callback(0)
        first = 0x8130 if code != 0x8130 else 0x8140
        ops = [
            {"op": "frame", "code": first, "reg": 0x11, "data": b"\x01\x02\x03\x04\x05", "ts": 1},
            {"op": "frame", "code": code, "reg": (code ^ (code >> 8) ^ 0x5A) & 0xFF,
             "data": bytes([(code >> 8) ^ 0xFF, code & 0xFF, 0, 0x80, (code * 7) & 0xFF]), "ts": 2.5,
             "buf": "bytearray" if code & 1 else "bytes"},
            {"op": "frame", "code": 0xFF01, "reg": 0x81, "data": b"\xff\x00\x00\x00\x00", "ts": 3},
        ]
        _run_ops(rig, ops, D)
    hi = code >> 8
    klass = "code/reset" if is_reset(code) else (
        f"code/class-{_CLASSES[hi][0]}" if hi in _CLASSES else "code/outside-every-class")
    return Outcome(False, klass, D)


# ---- wait cases ---------------------------------------------------------------------
class _ProbeCondition(threading.Condition):
    """threading.Condition that tells the harness when a thread is about to block.
    wait() is entered with the lock held and the lock is only released inside
    the base class once the caller is registered as a waiter: a feeder that
    acquires the condition after seeing 'enter' knows the waiter is blocked."""

    def __init__(self, q):
        super().__init__()
        self._verif_q = q

    def wait(self, timeout=None):
        self._verif_q.put("enter")
        return super().wait(timeout)


def _wait_plan(case):
    """Returns (pre, bursts, expected_index_in_fed or None, known_defect)."""
    filt = case["filter"]
    pre = case["pre"]
    bursts = case["feed"]
    pos = 0
    for b in bursts:
        for j, f in enumerate(b):
            if filt is None or f["code"] == filt:
                return pos + j, j != len(b) - 1
        pos += len(b)
    return None, False


def _run_wait(case):
    from canopen.emcy import EmcyConsumer
    filt = case["filter"]
    expect_i, defect = _wait_plan(case)
    # `defect` marks the class "the first matching frame is followed by another frame logged
    # before the waiter wakes up": it used to be excluded (wait() only looked at log[-1]);
    # repaired in /repo by commit 90d8476, so it is generated and judged like every other case.
    D = []
    q = queue.Queue()
    if case.get("rig") == "bus":
        rig = Rig("bus", [case.get("id", 1)])
    else:
        rig = Rig("direct", [case.get("id", 1)])
    consumer = rig.consumers[0]
    cond = _ProbeCondition(q)
    consumer.emcy_received = cond
    model = rig.models[0]
    seq = [0]

    def deliver(f):
        seq[0] += 1
        ts = 1000 + seq[0]
        data = bytes(f["data"])
        rig.raw_frame(0, ref_encode(f["code"], f["reg"], data), ts)
        model.frame((f["code"], f["reg"], data, ts))
        return (f["code"], f["reg"], data, ts)

    for f in case["pre"]:
        deliver(f)
    timeout = HIT_TIMEOUT if expect_i is not None else MISS_TIMEOUT
    form = case.get("form", "pos")
    box = {}

    def waiter():
        t0 = time.monotonic()
        try:
            if form == "kw":
                box["res"] = consumer.wait(emcy_code=filt, timeout=timeout)
            elif form == "timeout_only" and filt is None:
                box["res"] = consumer.wait(timeout=timeout)
            else:
                box["res"] = consumer.wait(filt, timeout)
        except BaseException as e:  # noqa: judged below
            box["exc"] = e
        box["elapsed"] = time.monotonic() - t0
        q.put("done")

    th = threading.Thread(target=waiter, name="c16-waiter", daemon=True)
    th.start()
    fed = []
    stuck = False
    try:
        for burst in case["feed"]:
            try:
                ev = q.get(timeout=GUARD)
            except queue.Empty:
                stuck = True
                break
            if ev == "done":
                break
            if len(burst) > 1:
                with cond:                      # waiter is blocked in wait(); it cannot run before all are logged
                    for f in burst:
                        fed.append(deliver(f))
            else:
                with cond:
                    pass
                fed.append(deliver(burst[0]))
    except Exception as e:
        D.append(Discrepancy("C16/raises/frame", f"delivering while a caller waits: {type(e).__name__}: {e}"))
    th.join(GUARD + 3 * timeout)
    nfed = sum(len(b) for b in case["feed"])
    klass = ("wait/" + ("filter" if filt is not None else "any") + "/"
             + ("silence" if nfed == 0 else "no-match" if expect_i is None else
                "hit-first" if expect_i == 0 else "hit-after-skips")
             + ("/burst" if any(len(b) > 1 for b in case["feed"]) else "")
             + ("/pre" if case["pre"] else ""))
    nontrivial = bool(case["pre"]) or nfed >= 2
    if D:
        return Outcome(nontrivial, klass, D)
    if th.is_alive() or stuck:
        D.append(Discrepancy("C16/wait/hang", f"wait({filt!r}, {timeout}) neither blocks on emcy_received nor "
                             f"returns within {GUARD}s after {len(fed)} fed frames"))
        return Outcome(nontrivial, klass, D)
    if "exc" in box:
        e = box["exc"]
        D.append(Discrepancy("C16/wait/raises", f"wait({filt!r}, {timeout}) raised {type(e).__name__}: {e}"))
        return Outcome(nontrivial, klass, D)
    res = box["res"]
    try:
        got = None if res is None else _fields(res)
    except Exception as e:
        D.append(Discrepancy("C16/wait/result-type", f"wait returned {res!r}: {type(e).__name__}: {e}"))
        return Outcome(nontrivial, klass, D)
    what = (f"wait({'0x%04X' % filt if filt is not None else None}, timeout {timeout}) after {len(case['pre'])} "
            f"earlier frames, fed {[[hex(f['code']) for f in b] for b in case['feed']]}")
    if expect_i is None:
        if got is not None:
            sig = "stale-entry" if got[3] <= 1000 + len(case["pre"]) else "non-matching-entry"
            D.append(Discrepancy(f"C16/wait/{sig}", f"{what}: returned {_show(got)}, want None (no matching frame "
                                 f"arrived after the call)"))
    else:
        # frames before the first match are all fed one wake-up at a time or as a burst ending in the match
        want = None
        pos = 0
        for b in case["feed"]:
            for f in b:
                if pos == expect_i:
                    want = (f["code"], f["reg"], bytes(f["data"]), 1000 + len(case["pre"]) + pos + 1)
                pos += 1
        if got is None:
            if expect_i < len(fed):
                D.append(Discrepancy("C16/wait/missed", f"{what}: returned None after {box['elapsed']:.3f}s although "
                                     f"{_show(want)} arrived while waiting"))
            elif box["elapsed"] < timeout / 2:
                D.append(Discrepancy("C16/wait/gave-up-early", f"{what}: returned None after {box['elapsed']:.3f}s, "
                                     f"before the time-out and before the matching frame could be fed"))
            else:
                D.append(Discrepancy("C16/wait/missed", f"{what}: returned None after {box['elapsed']:.3f}s"))
        elif got != want:
            if got[3] <= 1000 + len(case["pre"]):
                sig = "stale-entry"
            elif filt is not None and got[0] != filt:
                sig = "non-matching-entry"
            else:
                sig = "not-the-next-entry"
            D.append(Discrepancy(f"C16/wait/{sig}", f"{what}: returned {_show(got)} want {_show(want)}"))
    if not D:
        _compare(rig, D, what, False)
    return Outcome(nontrivial, klass, D)


def _run_wait_many(case):
    """Several callers wait on the same consumer; one frame arrives that matches all of
    their filters: *each* waiting caller must be handed that entry (added after the seeded
    change C16-r2m2, notify_all -> notify, which wakes only one of them)."""
    n = case["n"]
    f = case["frame"]
    D = []
    q = queue.Queue()
    rig = Rig("direct", [case.get("id", 1)])
    consumer = rig.consumers[0]
    cond = _ProbeCondition(q)
    consumer.emcy_received = cond
    results = [None] * n
    errors = [None] * n

    def waiter(i):
        try:
            filt = case["filters"][i % len(case["filters"])]
            results[i] = consumer.wait(filt, HIT_TIMEOUT)
        except BaseException as e:  # noqa: judged below
            errors[i] = e

    ths = [threading.Thread(target=waiter, args=(i,), daemon=True) for i in range(n)]
    for t in ths:
        t.start()
    entered = 0
    try:
        while entered < n:
            q.get(timeout=GUARD)
            entered += 1
    except queue.Empty:
        D.append(Discrepancy("C16/wait/hang", f"only {entered} of {n} callers blocked in wait() within {GUARD}s"))
        return Outcome(True, "wait-many", D)
    with cond:      # all n callers are registered as waiters now
        pass
    data = bytes(f["data"])
    rig.raw_frame(0, ref_encode(f["code"], f["reg"], data), 2001)
    for t in ths:
        t.join(HIT_TIMEOUT + GUARD)
    want = (f["code"], f["reg"], data, 2001)
    for i in range(n):
        if errors[i] is not None:
            D.append(Discrepancy("C16/wait/raises", f"caller {i} of {n}: {type(errors[i]).__name__}: {errors[i]}"))
            break
        got = None if results[i] is None else _fields(results[i])
        if got != want:
            D.append(Discrepancy("C16/wait/concurrent-caller-not-served",
                                 f"{n} callers waited (filters {case['filters']}), frame {_show(want)} arrived: "
                                 f"caller {i} got {_show(got) if got else None}"))
            break
    return Outcome(True, f"wait-many/{n}", D)


def run_case(case) -> Outcome:
    kind = case["kind"]
    if kind == "code":
        return _run_code(case)
    if kind == "wait":
        return _run_wait(case)
    if kind == "wait_many":
        return _run_wait_many(case)
    return _run_history(case)


def wait_many_enum():
    for n in (2, 3, 4):
        for filters in ([None], [0x2310], [None, 0x2310], [0x2310, None, 0x2310]):
            yield {"kind": "wait_many", "n": n, "filters": filters,
                   "frame": {"code": 0x2310, "reg": 3, "data": b"\x01\x02\x03\x04\x05"}}
        yield {"kind": "wait_many", "n": n, "filters": [0, None],
               "frame": {"code": 0x0000, "reg": 0, "data": bytes(5)}}


# ---- generation ------------------------------------------------------------------------
def _fr(code, reg=0, data=b"\x00" * 5, ts=1, node=0, **kw):
    d = {"op": "frame", "node": node, "code": code, "reg": reg, "data": data, "ts": ts}
    d.update(kw)
    return d


ALPHABET = [
    ("A", 0x1000, 0x01, b"\x01\x00\x00\x00\x00"),
    ("B", 0x8110, 0x11, b"\x00\x00\x00\x00\x02"),
    ("R", 0x0000, 0x00, b"\x00\x00\x00\x00\x00"),
    ("r", 0x00FF, 0x80, b"\xff\xff\xff\xff\xff"),
    ("N", 0x0100, 0x01, b"\x00\x01\x00\x01\x00"),
]


def interleavings(maxlen):
    def rec(prefix, n):
        if prefix:
            yield prefix
        if n == 0:
            return
        for a in range(len(ALPHABET)):
            yield from rec(prefix + [a], n - 1)
    i = 0
    for seq in rec([], maxlen):
        i += 1
        rig = "bus" if i % 2 else "direct"
        ops = [{"op": "cb", "node": 0}]
        mid = len(seq) // 2
        for j, a in enumerate(seq):
            if j == mid and len(seq) > 1:
                ops.append({"op": "cb", "node": 0})
            _, code, reg, data = ALPHABET[a]
            ops.append(_fr(code, reg, data, ts=j + 1, buf="bytearray" if j % 2 else "bytes"))
        yield {"kind": "interleave", "rig": rig, "ids": [1 + (i % 127)], "ops": ops}


def roundtrips():
    codes = [0x0000, 0x00FF, 0x0100, 0x1000, 0x1234, 0x3412, 0x8000, 0x7FFF, 0xFF00, 0xFFFF, 0x00AB, 0xAB00]
    i = 0
    for reg in range(256):
        for n in range(6):
            i += 1
            data = bytes(((reg + 3 * j + 1) % 255) + 1 for j in range(n))
            code = codes[i % len(codes)]
            nid = 1 + (i % 127)
            pre = [{"op": "cb", "node": 0}, _fr(0x2310, 1, b"\x09\x08\x07\x06\x05", ts=7)]
            form = ("all", "kw")[(reg + n) % 2]
            yield {"kind": "roundtrip", "rig": "bus", "ids": [nid],
                   "ops": pre + [{"op": "send", "node": 0, "code": code, "reg": reg, "data": data, "form": form}]}
            yield {"kind": "roundtrip", "rig": "bus", "ids": [nid],
                   "ops": pre + [{"op": "preset", "node": 0, "reg": reg, "data": data, "form": form}]}
        yield {"kind": "roundtrip", "rig": "bus", "ids": [nid],
               "ops": pre + [{"op": "send", "node": 0, "code": code, "reg": reg, "data": b"", "form": "code_reg"}]}
        yield {"kind": "roundtrip", "rig": "bus", "ids": [nid],
               "ops": pre + [{"op": "preset", "node": 0, "reg": reg, "data": b"", "form": "reg"}]}
    for code in codes:
        yield {"kind": "roundtrip", "rig": "bus", "ids": [5],
               "ops": pre + [{"op": "send", "node": 0, "code": code, "reg": 0, "data": b"", "form": "code"}]}
        yield {"kind": "roundtrip", "rig": "bus", "ids": [5 + code % 100, 120], "ctor": "od",
               "ops": pre + [{"op": "send", "node": 0, "code": code, "reg": 3, "data": b"\x01", "form": "all"},
                             {"op": "send", "node": 1, "code": code, "reg": 0, "data": b"", "form": "code"}]}
    yield {"kind": "roundtrip", "rig": "bus", "ids": [5],
           "ops": pre + [{"op": "preset", "node": 0, "reg": 0, "data": b"", "form": "none"}]}


def _wf(code, k=0):
    return {"code": code, "reg": (code + k) & 0xFF, "data": bytes([k & 0xFF, code >> 8, 0, 0, code & 0xFF])}


def wait_enum():
    X, Y, Z = 0x2001, 0x9000, 0x0000
    pres = [[], [_wf(X, 1)], [_wf(X, 1), _wf(Y, 2), _wf(Z, 3)]]
    feeds = [
        [], [[_wf(X)]], [[_wf(Y)]], [[_wf(Z)]], [[_wf(Y)], [_wf(X)]], [[_wf(Y)], [_wf(Z)], [_wf(X)]],
        [[_wf(Y), _wf(X)]], [[_wf(X), _wf(Y)]], [[_wf(Y), _wf(Z)], [_wf(X)]], [[_wf(X)], [_wf(X, 9)]],
        [[_wf(Y, 1), _wf(Y, 2)]], [[_wf(0x2101)], [_wf(0x0120)]],
    ]
    i = 0
    for pre in pres:
        for feed in feeds:
            for filt in (None, X, Z, 0x2000):
                i += 1
                yield {"kind": "wait", "rig": "bus" if i % 3 == 0 else "direct", "pre": pre, "feed": feed,
                       "filter": filt, "form": ("pos", "kw", "timeout_only")[i % 3]}


def codes_st():
    return st.one_of(
        st.integers(0, 0xFF),
        st.integers(0, 0xFF).map(lambda h: h << 8),
        st.integers(0, 0xFF).map(lambda h: (h << 8) | 0xFF),
        st.integers(0x0100, 0x0FFF),
        st.sampled_from([0x0000, 0x0001, 0x00FF, 0x0100, 0x0101, 0x1000, 0xF000, 0xFF00, 0xFFFF, 0xFEFF, 0x8000,
                         0x7FFF, 0x0080, 0x8001, 0x0180]),
        st.integers(0, 0xFFFF),
    )


def _ts(v):
    """One draw -> int or (exactly representable) float timestamp."""
    if v % 4 == 0:
        return v // 4
    if v % 4 == 1:
        return (v // 4) / 1024.0
    if v % 4 == 2:
        return float(v // 4)
    return (v // 4) % 100000


def ts_st():
    return st.integers(0, 2 ** 36).map(_ts)


_FORMS_SEND = ["all", "all", "kw", "code_reg", "code"]
_FORMS_RESET = ["all", "kw", "reg", "none"]


@st.composite
def history(draw, maxlen):
    """Few draws per op (Hypothesis generation dominates the cost of a case):
    one selector (kind, node, buffer type, form), code, 6 bytes (register + data), timestamp."""
    head = draw(st.integers(0, 127 * 126 * 3 - 1))
    rig = ["direct", "bus", "bus"][head % 3]
    a = head // 3 % 127
    b = head // 3 // 127
    if b >= a:
        b += 1
    ids = sorted([a + 1, b + 1])
    n = draw(st.integers(1, maxlen))
    ops = []
    for _ in range(n):
        sel = draw(st.integers(0, 20 * 2 * 2 * 6 * 5 - 1))
        k, node, buf, dlen, form = sel % 20, sel // 20 % 2, sel // 40 % 2, sel // 80 % 6, sel // 480
        if rig == "direct" and k >= 15:
            k = 0
        if k < 11:
            rd = draw(st.binary(min_size=6, max_size=6))
            ops.append(_fr(draw(codes_st()), rd[0], rd[1:], draw(ts_st()), node,
                           buf=["bytes", "bytearray"][buf]))
        elif k < 14:
            ops.append({"op": "cb", "node": node})
        elif k == 14:
            ops.append({"op": "clear", "node": node})
        elif k == 15 and form == 4:
            ops.append({"op": "readd", "node": node})
        elif k == 15:
            can_id = draw(st.integers(0x80, 0xFF))
            if can_id - 0x80 in ids:
                can_id = 0x80
            ops.append({"op": "noise", "can_id": can_id, "data": draw(st.binary(min_size=8, max_size=8)),
                        "ts": draw(ts_st())})
        elif k < 19:
            rd = draw(st.binary(min_size=6, max_size=6))
            ops.append({"op": "send", "node": node, "code": draw(codes_st()), "reg": rd[0],
                        "data": rd[1:1 + dlen], "form": _FORMS_SEND[form]})
        else:
            rd = draw(st.binary(min_size=6, max_size=6))
            ops.append({"op": "preset", "node": node, "reg": rd[0], "data": rd[1:1 + dlen],
                        "form": _FORMS_RESET[form % 4]})
    return {"kind": "history", "rig": rig, "ids": ids, "ops": ops,
            "ctor": "od" if (rig == "bus" and (ids[0] + len(ops)) % 4 == 0) else "arg"}


class _Prng:
    """splitmix64: expands one Hypothesis-drawn 64-bit seed into a stream (no use of `random`)."""

    def __init__(self, seed):
        self.x = seed & 0xFFFFFFFFFFFFFFFF

    def next(self):
        self.x = (self.x + 0x9E3779B97F4A7C15) & 0xFFFFFFFFFFFFFFFF
        z = self.x
        z = ((z ^ (z >> 30)) * 0xBF58476D1CE4E5B9) & 0xFFFFFFFFFFFFFFFF
        z = ((z ^ (z >> 27)) * 0x94D049BB133111EB) & 0xFFFFFFFFFFFFFFFF
        return z ^ (z >> 31)

    def below(self, n):
        return self.next() % n


_SPECIAL = [0x0000, 0x0001, 0x00FF, 0x0100, 0x0101, 0x1000, 0xF000, 0xFF00, 0xFFFF, 0xFEFF, 0x8000,
            0x7FFF, 0x0080, 0x8001, 0x0180]


def _code_from(r):
    k = r.below(6)
    if k == 0:
        return r.below(0x100)
    if k == 1:
        return r.below(0x100) << 8
    if k == 2:
        return (r.below(0x100) << 8) | 0xFF
    if k == 3:
        return 0x0100 + r.below(0x0F00)
    if k == 4:
        return _SPECIAL[r.below(len(_SPECIAL))]
    return r.below(0x10000)


def expand_history(seed, n):
    """Deterministic expansion of (seed, n) into a history; the ops of (seed, n-1)
    are a prefix of those of (seed, n), so shrinking n shrinks the history."""
    r = _Prng(seed)
    rig = ["direct", "bus", "bus"][r.below(3)]
    a = r.below(127)
    b = r.below(126)
    if b >= a:
        b += 1
    ids = sorted([a + 1, b + 1])
    # a small per-history code pool makes repeated codes (and error/reset alternation) likely
    pool = [_code_from(r) for _ in range(1 + r.below(4))]
    ops = []
    for _ in range(n):
        k = r.below(20)
        node = r.below(2)
        if rig == "direct" and k >= 15:
            k = 0
        rd = r.next().to_bytes(8, "little")
        code = pool[r.below(len(pool))] if r.below(3) == 0 else _code_from(r)
        if k < 11:
            ops.append(_fr(code, rd[0], rd[1:6], _ts(r.below(2 ** 36)), node, buf=["bytes", "bytearray"][r.below(2)]))
        elif k < 14:
            ops.append({"op": "cb", "node": node})
        elif k == 14:
            ops.append({"op": "clear", "node": node})
        elif k == 15 and r.below(3) == 0:
            ops.append({"op": "readd", "node": node})
        elif k == 15:
            can_id = 0x80 + r.below(0x80)
            if can_id - 0x80 in ids:
                can_id = 0x80
            ops.append({"op": "noise", "can_id": can_id, "data": r.next().to_bytes(8, "little"),
                        "ts": _ts(r.below(2 ** 36))})
        elif k < 19:
            ops.append({"op": "send", "node": node, "code": code, "reg": rd[0],
                        "data": rd[1:1 + r.below(6)], "form": _FORMS_SEND[r.below(5)]})
        else:
            ops.append({"op": "preset", "node": node, "reg": rd[0], "data": rd[1:1 + r.below(6)],
                        "form": _FORMS_RESET[r.below(4)]})
    return {"kind": "history", "rig": rig, "ids": ids, "ops": ops,
            "ctor": "od" if (rig == "bus" and (ids[0] + len(ops)) % 4 == 0) else "arg"}


def expanded_histories(maxlen):
    return st.tuples(st.integers(0, 2 ** 64 - 1), st.integers(1, maxlen)).map(lambda t: expand_history(*t))


@st.composite
def wait_case(draw):
    pool = draw(st.lists(codes_st(), min_size=1, max_size=4, unique=True))
    code = st.sampled_from(pool)

    def frame():
        return st.builds(lambda c, r, d: {"code": c, "reg": r, "data": d}, code, st.integers(0, 255),
                         st.binary(min_size=5, max_size=5))
    pre = draw(st.lists(frame(), max_size=4))
    silent = draw(st.integers(0, 9)) == 0
    if silent:
        feed = []
    else:
        feed = draw(st.lists(st.lists(frame(), min_size=1, max_size=3), min_size=1, max_size=5))
    filt = draw(st.one_of(st.none(), code, code, st.just(0), codes_st()))
    # keep the number of cases that must run into the (real) time-out small
    return {"kind": "wait", "rig": draw(st.sampled_from(["direct", "direct", "bus"])), "id": draw(st.integers(1, 127)),
            "pre": pre, "feed": feed, "filter": filt,
            "form": draw(st.sampled_from(["pos", "kw", "timeout_only"]))}


def _showcase():
    yield {"kind": "code", "code": 0x8130}
    yield expand_history(4, 14)
    yield next(c for c in wait_enum() if c["pre"] and len(c["feed"]) == 3 and c["filter"] == 0x2001)
    yield next(c for c in roundtrips() if len(c["ops"][-1]["data"]) == 3)
    yield next(c for i, c in enumerate(interleavings(4)) if i == 15)


def _spread(cases, nshards):
    """ctx.enumerate hands item i to shard i % nshards; pad so that shard 0 gets every case."""
    for c in cases:
        yield c
        for _ in range(nshards - 1):
            yield None


def search(ctx):
    thorough = ctx.tier == "thorough"
    if ctx.shard == 0:
        # one case of every kind first (they recur below): makes the evidence samples span the families
        ctx.enumerate(_spread(_showcase(), ctx.nshards))
    ctx.enumerate(interleavings(6 if thorough else 4),
                  "every error/reset/near-reset interleaving up to length %d" % (6 if thorough else 4))
    ctx.enumerate(wait_enum(), "wait: 3 pre-histories x 12 feed shapes x 4 filters")
    ctx.enumerate(wait_many_enum(), "wait: 2..4 concurrent callers x filter mixes, one matching frame")
    ctx.enumerate(roundtrips(), "producer round trip: every register x data length 0..5 x send/reset")
    ctx.enumerate(({"kind": "code", "code": c} for c in range(0x10000)),
                  "all 65536 codes: description, decode, reset classification")
    # the bulk (seed-expanded histories, cheapest per case) comes last and in chunks, so that a
    # budget that runs out (loaded machine) cuts only there and no generation is done for nothing
    ctx.hypothesis(history(60 if thorough else 30), 2500 if thorough else 500, salt=1)
    if not ctx.over_budget():
        ctx.hypothesis(wait_case(), 1000 if thorough else 250, salt=2)
    for chunk in range(8 if thorough else 2):
        if ctx.over_budget():
            break
        ctx.hypothesis(expanded_histories(80 if thorough else 40), 5000 if thorough else 2500, salt=10 + chunk)
