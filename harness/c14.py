"""C14 - exporting a dictionary to EDS/DCF and importing it again loses nothing.

SUT: canopen.export_od -> export_eds / export_dcf / _revert_variable, then
canopen.import_od on the produced document.

The dictionary is obtained in one of two ways from the abstract model of
harness/edsmodel.py (no canopen types):
  route "code"  built with ObjectDictionary/ODVariable/ODRecord/ODArray (no default_raw)
  route "text"  imported from the text of the independent C08 writer (verbatim
                default_raw / value_raw, $NODEID defaults present)
A snapshot (plain dicts) of every attribute the property names is taken BEFORE the
export; the re-imported dictionary is compared with that snapshot, so an export that
damaged its argument is seen too.

Clause -> case family
  same objects / kinds / names / sub-indices      every case; enum/subs (every sub-index 1..0xFE in records
                                                  and arrays of 20 members), hyp records/arrays 1..20 members
  data types, access types, PDO-mappability       hyp (all 23 types, 6 access types), enum/bounds
  default values incl. negative ones              enum/bounds (every boundary value of every integer type as
                                                  default + parameter value), hyp (REAL, strings, bytes, bool)
  limits                                          enum/bounds (low/high at boundary values, every width), hyp
  storage locations, factor/unit/description      hyp (variables, records and arrays)
  device information and comments                 hyp (typed DeviceInformation, baud-rate set, 0..4 comment lines)
  DCF: parameter values, bit rate, node id        hyp + enum (doc type dcf), node id 1..127, 8 CiA bit rates
  relative ($NODEID) defaults                     route "text" with node id from the file or given explicitly
  names with spaces, '%', '=', '.'                hyp (name alphabet of the C08 writer)
  destination does not change the document        every case exports to all three destinations (path with
                                                  .eds/.dcf suffix - doc type inferred or given -, StringIO +
                                                  doc_type, None -> captured sys.stdout); the documents must
                                                  be identical once [FileInfo] (time stamps) is removed; the
                                                  case picks which one is re-imported
"""
import contextlib
import io
import os
from collections import Counter

from hypothesis import strategies as st

from harness import edsmodel as em
from harness import refcodec as rc
from harness.c08 import DEVINFO_ATTR, hyp_chunks, scratch_dir
from harness.core import Discrepancy, Outcome

PROPERTY = "C14"
LEVEL = "exploration"
RULE = ("case = (abstract dictionary model, route code|text, document type eds|dcf, destination that is "
        "re-imported: path with inferred doc type | path with explicit doc type | StringIO | stdout; a path with "
        "several dots in directory and file name is written too). Code-built dictionaries may then have every "
        "default / parameter value changed and be exported and imported a second time. "
        "Models have 1..4 objects (VAR/DOMAIN/ARRAY/RECORD of 1..20 members) over 0x1000..0x9FFF, all 23 "
        "data types, defaults / parameter values / limits at the range ends of every integer width incl. "
        "negative ones, REAL/string/byte defaults, storage location, factor/unit/description, device "
        "information, baud rates, comments, node id 1..127, CiA bit rates. Oracle: attribute-wise equality "
        "of import_od(export_od(od)) with a snapshot of od taken before the export (DCF additionally value, "
        "bit rate, node id) + the three destinations give the same document modulo [FileInfo]. "
        "Non-trivial = dictionary with a negative default/parameter value, a limit on an odd-width integer, "
        "a record or a relative default; distinct = canonical JSON of the case.")
ASSUMPTIONS = [
    "texts (names, string defaults, unit, description, comments, device info) are ASCII without ';' '#' '$', "
    "line breaks or leading/trailing blanks (the INI carrier strips blanks and treats ' ;' as a comment)",
    "access types are lower case; limits only on integer types and inside the type's range; storage "
    "location is None or a non-empty word; node id 1..127; bit rate one of the 8 CiA rates",
    "an EDS cannot carry the node id: the EDS is re-imported with node_id=od.node_id so that $NODEID "
    "defaults resolve as before; the DCF is re-imported without argument",
    "route text: when import_od did not record the explicitly given node id (no [DeviceComissioning] in "
    "the source) the harness sets od.node_id itself before exporting",
    "[FileInfo] is not compared (time stamps; export_eds' mutable default argument leaks keys between calls)",
    "compact arrays of a model are built in code as arrays with explicit members (at most 20)",
]
BUDGET = {"quick": 150, "thorough": 240}

_feature_counts = Counter()
VAR_ATTRS = ("name", "index", "subindex", "data_type", "access_type", "pdo_mappable", "default",
             "min", "max", "storage_location", "factor", "unit", "description")


# ---- building a dictionary in code ----------------------------------------------
def _py_value(dt, spec):
    if spec is None:
        return None
    known, v = em.spec_value(spec, None)
    assert known, spec
    if dt == rc.BOOLEAN:
        return bool(v)
    return v


def _build_var(v, index, sub, name=None):
    from canopen.objectdictionary import ODVariable
    var = ODVariable(v["name"] if name is None else name, index, sub)
    var.data_type = v["dt"]
    var.access_type = v["access"]
    var.pdo_mappable = bool(v["pdo"])
    var.default = _py_value(v["dt"], v["default"])
    var.value = _py_value(v["dt"], v["value"])
    if v["low"] is not None:
        var.min = v["low"]["v"]
    if v["high"] is not None:
        var.max = v["high"]["v"]
    var.storage_location = v["storage"]
    if v["factor"] is not None:
        var.factor = v["factor"]
    if v["unit"] is not None:
        var.unit = v["unit"]
    if v["description"] is not None:
        var.description = v["description"]
    return var


def build_od(model):
    from canopen.objectdictionary import ObjectDictionary, ODArray, ODRecord, ODVariable
    od = ObjectDictionary()
    for o in model["objects"]:
        kind, index = o["kind"], o["index"]
        if kind in ("var", "domain"):
            od.add_object(_build_var(em.top_var(o), index, 0))
            continue
        obj = (ODRecord if kind == "record" else ODArray)(o["name"], index)
        obj.storage_location = o["storage"]
        if kind == "compact":
            zero = ODVariable("Number of entries", index, 0)
            zero.data_type = rc.UNSIGNED8
            zero.access_type = "ro"
            zero.default = min(o["n"], 20)
            obj.add_member(zero)
            for k in range(1, min(o["n"], 20) + 1):
                nm = o["names"][k - 1] if o["names"] is not None and k <= len(o["names"]) else f"{o['name']} {k}"
                obj.add_member(_build_var(o["var"], index, k, name=nm))
        else:
            for m in o["members"]:
                obj.add_member(_build_var(m, index, m["sub"]))
        od.add_object(obj)
    info = od.device_information
    for key, val in (model["devinfo"] or {}).items():
        setattr(info, DEVINFO_ATTR[key], bool(val) if key in em.DEVINFO_BOOL else val)
    for kb in model["baud"]:
        info.allowed_baudrates.add(kb * 1000)
    od.comments = "\n".join(model["comments"] or [])
    com = model["commissioning"]
    if com is not None:
        od.node_id = com["node_id"]
        od.bitrate = None if com["baudrate"] is None else com["baudrate"] * 1000
    return od


# ---- snapshot / comparison ---------------------------------------------------------
def _snap_var(var):
    d = {a: getattr(var, a) for a in VAR_ATTRS}
    d["value"] = var.value
    d["relative"] = var.relative
    return d


def snapshot(od):
    from canopen.objectdictionary import ODVariable
    objs = {}
    for index, obj in od.indices.items():
        if isinstance(obj, ODVariable):
            objs[index] = {"kind": type(obj).__name__, "name": obj.name, "var": _snap_var(obj)}
        else:
            objs[index] = {"kind": type(obj).__name__, "name": obj.name, "storage": obj.storage_location,
                           "subs": {s: _snap_var(m) for s, m in obj.subindices.items()}}
    info = od.device_information
    return {"objects": objs, "comments": od.comments, "node_id": od.node_id, "bitrate": od.bitrate,
            "devinfo": {attr: getattr(info, attr) for attr in DEVINFO_ATTR.values()},
            "baud": set(info.allowed_baudrates)}


def _same(dt, a, b):
    if a is None or b is None:
        return a is None and b is None
    if dt in rc.REALS:
        return isinstance(b, float) and rc.float_bits_equal(float(a), b)
    if dt in rc.INTEGERS:
        return isinstance(b, int) and not isinstance(b, bool) and a == b
    if dt in em.BYTES_TYPES:
        return bytes(a) == bytes(b)
    return a == b and (dt == rc.BOOLEAN or type(a) is type(b))


def _cmp_var(D, where, a, b, dcf):
    dt = a["data_type"]
    for attr in VAR_ATTRS:
        x, y = a[attr], b[attr]
        if attr == "default":
            ok = _same(dt, x, y)
            attr_sig = "default/negative" if isinstance(x, int) and not isinstance(x, bool) and x < 0 else "default"
        elif attr in ("min", "max"):
            ok = (x is None and y is None) or (isinstance(y, int) and not isinstance(y, bool) and x == y)
            attr_sig = "limit/" + attr
        elif attr == "pdo_mappable":
            ok = bool(x) == bool(y) and isinstance(y, (bool, int))
            attr_sig = attr
        else:
            ok = x == y
            attr_sig = attr
        if not ok:
            D.append(Discrepancy(f"C14/{attr_sig}", f"{where}: {attr} {x!r} -> {y!r} ({rc.NAMES.get(dt, dt)})"))
            return False
    if dcf and not _same(dt, a["value"], b["value"]):
        D.append(Discrepancy("C14/value", f"{where}: value {a['value']!r} -> {b['value']!r} "
                                          f"({rc.NAMES.get(dt, dt)})"))
        return False
    return True


def compare(D, before, after, dcf):
    A, B = before["objects"], after["objects"]
    if set(A) != set(B):
        D.append(Discrepancy("C14/objects", f"objects {sorted(hex(i) for i in A)} -> {sorted(hex(i) for i in B)}"))
        return
    for index in sorted(A):
        a, b = A[index], B[index]
        where = f"{index:04X}"
        if a["kind"] != b["kind"]:
            return D.append(Discrepancy("C14/kind", f"{where}: {a['kind']} -> {b['kind']}"))
        if a["name"] != b["name"]:
            return D.append(Discrepancy("C14/name", f"{where}: name {a['name']!r} -> {b['name']!r}"))
        if "var" in a:
            if not _cmp_var(D, where, a["var"], b["var"], dcf):
                return
            continue
        if a["storage"] != b["storage"]:
            return D.append(Discrepancy("C14/storage_location", f"{where}: storage {a['storage']!r} -> {b['storage']!r}"))
        if set(a["subs"]) != set(b["subs"]):
            return D.append(Discrepancy("C14/subindices", f"{where}: sub-indices {sorted(a['subs'])} -> "
                                                          f"{sorted(b['subs'])}"))
        for s in sorted(a["subs"]):
            if not _cmp_var(D, f"{where}sub{s:X}", a["subs"][s], b["subs"][s], dcf):
                return
    for attr, x in before["devinfo"].items():
        y = after["devinfo"][attr]
        if x != y or (x is not None and isinstance(x, bool) != isinstance(y, bool)):
            return D.append(Discrepancy(f"C14/devinfo/{attr}", f"device_information.{attr} {x!r} -> {y!r}"))
    if before["baud"] != after["baud"]:
        return D.append(Discrepancy("C14/devinfo/baudrates", f"allowed_baudrates {sorted(before['baud'])} -> "
                                                             f"{sorted(after['baud'])}"))
    if before["comments"] != after["comments"]:
        return D.append(Discrepancy("C14/comments", f"comments {before['comments']!r} -> {after['comments']!r}"))
    if dcf:
        if before["bitrate"] != after["bitrate"]:
            return D.append(Discrepancy("C14/bitrate", f"bitrate {before['bitrate']!r} -> {after['bitrate']!r}"))
        if before["node_id"] != after["node_id"]:
            return D.append(Discrepancy("C14/node_id", f"node_id {before['node_id']!r} -> {after['node_id']!r}"))


# ---- documents ---------------------------------------------------------------------
def strip_fileinfo(text):
    out, skip = [], False
    for line in text.splitlines():
        s = line.strip()
        if s.startswith("[") and s.endswith("]"):
            skip = s == "[FileInfo]"
        if not skip:
            out.append(line)
    return "\n".join(out)


def export_all(od, doc):
    """-> {destination kind: document text}, path of the file written last"""
    import canopen
    docs = {}
    path = os.path.join(scratch_dir(), f"{os.getpid()}-exp.{doc}")
    canopen.export_od(od, path)
    with open(path) as f:
        docs["path"] = f.read()
    path2 = os.path.join(scratch_dir(), f"{os.getpid()}-exp2.{doc}")
    canopen.export_od(od, path2, doc_type=doc)
    with open(path2) as f:
        docs["path+type"] = f.read()
    other = "dcf" if doc == "eds" else "eds"
    # a file name and a directory with more dots than the one in front of the suffix
    ddir = os.path.join(scratch_dir(), "rev1.2")
    os.makedirs(ddir, exist_ok=True)
    path4 = os.path.join(ddir, f"{os.getpid()}-node9.v2.{doc}")
    canopen.export_od(od, path4)
    with open(path4) as f:
        docs["path with several dots"] = f.read()
    path3 = os.path.join(scratch_dir(), f"{os.getpid()}-exp3.{other}")
    canopen.export_od(od, path3, doc_type=doc)       # the suffix is only the default for doc_type
    with open(path3) as f:
        docs["path+type, other suffix"] = f.read()
    buf = io.StringIO()
    canopen.export_od(od, buf, doc_type=doc)
    docs["stream"] = buf.getvalue()
    out = io.StringIO()
    with contextlib.redirect_stdout(out):
        canopen.export_od(od, None, doc_type=doc)
    docs["stdout"] = out.getvalue()
    return docs, {"path": path, "path+type": path2}


def excluded_class(case):
    model = case["model"]
    ex = em.excluded_class(model)
    if ex:
        return ex
    # G1 (comments ending in an empty line) was repaired in /repo (commit 3761bfa): not excluded
    return None


def run_case(case) -> Outcome:
    import canopen
    model, route, doc, dest = case["model"], case["route"], case["doc"], case["dest"]
    ex = excluded_class(case)
    if ex:
        return Outcome(excluded=ex)
    feats = em.features(model)
    # ---- obtain the dictionary
    if route == "code":
        od = build_od(model)
    else:
        s = io.StringIO(em.render(model))
        s.name = "src." + model["doc"]
        od = canopen.import_od(s, case["node_arg"])
        if od.node_id is None and case["node_arg"] is not None:
            od.node_id = case["node_arg"]
    before = snapshot(od)
    # what the generator put in, independently of the object that carries it (a set shared between
    # dictionaries would make the object's own content wrong already)
    want_baud = {kb * 1000 for kb in (model["baud"] or [])}
    if before["baud"] != want_baud:
        return Outcome(True, "setup", [Discrepancy(
            "C14/devinfo/baudrates-before-export",
            f"the dictionary holds allowed_baudrates {sorted(before['baud'])}, the {route}-built source "
            f"describes {sorted(want_baud)}")])
    nt = set()
    for o in before["objects"].values():
        vars_ = [o["var"]] if "var" in o else list(o["subs"].values())
        if o["kind"] == "ODRecord":
            nt.add("record")
        for v in vars_:
            for x in (v["default"], v["value"] if doc == "dcf" else None):
                if isinstance(x, (int, float)) and not isinstance(x, bool) and x < 0:
                    nt.add("negval")
            if v["data_type"] in em.ODD and (v["min"] is not None or v["max"] is not None):
                nt.add("oddlimit")
            if v["relative"]:
                nt.add("rel")
    for f in nt:
        _feature_counts[f] += 1
    family = case.get("family", "hyp")
    klass = (f"{family}/{doc}" if family != "hyp" else
             f"hyp/{route}/{doc}/{dest}/" + ("+".join(sorted(nt)) or "plain"))
    D = []
    # ---- export to every destination
    try:
        docs, paths = export_all(od, doc)
    except Exception as e:
        return Outcome(bool(nt), klass, [Discrepancy(f"C14/export-raises/{type(e).__name__}",
                                                     f"export_od raised {type(e).__name__}: {e}")])
    ref = strip_fileinfo(docs[dest])
    for kind, text in docs.items():
        if strip_fileinfo(text) != ref:
            a, b = ref.splitlines(), strip_fileinfo(text).splitlines()
            diff = next((f"{x!r} vs {y!r}" for x, y in zip(a, b) if x != y), f"{len(a)} vs {len(b)} lines")
            return Outcome(bool(nt), klass, [Discrepancy(
                "C14/destination", f"document written to {kind} differs from the one written to {dest}: {diff}")])
    if snapshot(od) != before:
        return Outcome(bool(nt), klass, [Discrepancy("C14/export-mutates", "export_od changed the dictionary")])
    # ---- import the document again
    node = None if doc == "dcf" else od.node_id
    try:
        if dest in paths:
            od2 = canopen.import_od(paths[dest], node)
        else:
            s = io.StringIO(docs[dest])
            s.name = "again." + doc
            od2 = canopen.import_od(s, node)
    except Exception as e:
        return Outcome(bool(nt), klass, [Discrepancy(f"C14/reimport-raises/{type(e).__name__}",
                                                     f"import of the exported {doc} raised {type(e).__name__}: {e}")])
    compare(D, before, snapshot(od2), doc == "dcf")
    # by-name lookup in the re-imported dictionary reaches the object at the index
    if not D:
        for index, o in before["objects"].items():
            try:
                if od2[o["name"]] is not od2[index]:
                    D.append(Discrepancy("C14/lookup", f"od2[{o['name']!r}] is not od2[{index:#x}]"))
                    break
            except KeyError:
                D.append(Discrepancy("C14/lookup", f"od2[{o['name']!r}] raises KeyError"))
                break
    # ---- the application edits defaults / values of a dictionary it built and exports it again
    if not D and case.get("edit") and route == "code":
        n_edit = _edit_values(od)
        before2 = snapshot(od)
        try:
            buf = io.StringIO()
            canopen.export_od(od, buf, doc_type=doc)
            s = io.StringIO(buf.getvalue())
            s.name = "edited." + doc
            od3 = canopen.import_od(s, node)
        except Exception as e:
            return Outcome(bool(nt), klass, [Discrepancy(f"C14/after-edit/raises/{type(e).__name__}",
                                                         f"second export/import raised {type(e).__name__}: {e}")])
        D2 = []
        compare(D2, before2, snapshot(od3), doc == "dcf")
        D = [Discrepancy("C14/after-edit/" + d.signature.split("/", 1)[1],
                         f"after {n_edit} defaults/values were changed and the dictionary exported again: {d.detail}")
             for d in D2]
    return Outcome(bool(nt), klass, D[:1])


def _edited(dt, x):
    if dt == rc.BOOLEAN:
        return not x
    if dt in rc.INTEGERS:
        lo, hi = rc.int_range(dt)
        return x + 1 if x < hi else x - 1
    if dt in rc.REALS:
        return 2.5 if x == 1.5 else 1.5
    if dt in em.BYTES_TYPES:
        return bytes(x) + b"\x01"
    return x + "x" if isinstance(x, str) else x


def _edit_values(od):
    from canopen.objectdictionary import ODVariable
    n = 0
    for obj in od.indices.values():
        for var in ([obj] if isinstance(obj, ODVariable) else list(obj.subindices.values())):
            for attr in ("default", "value"):
                x = getattr(var, attr)
                if x is not None and var.data_type in em.ALL_TYPES:
                    setattr(var, attr, _edited(var.data_type, x))
                    n += 1
    return n


# ---- enumerated families -------------------------------------------------------------
def _var(dt, **kw):
    v = {"sub": 0, "name": "", "dt": dt, "access": "rw", "pdo": 0, "default": None, "value": None,
         "low": None, "high": None, "storage": None, "factor": None, "unit": None, "description": None,
         "sp": 0}
    v.update(kw)
    return v


def _model(objs, **kw):
    m = {"doc": "dcf", "sp": 0, "objects": objs, "dummies": None, "devinfo": None, "baud": [],
         "comments": None, "commissioning": None}
    m.update(kw)
    return m


DESTS = ["path", "path+type", "stream", "stdout"]


def enum_cases(tier):
    n = 0
    # every boundary value of every integer type as default, parameter value and limits
    for dt in sorted(rc.INTEGERS):
        b = em.bounds(dt)
        for i, val in enumerate(b):
            other = b[(i * 7 + 3) % len(b)]
            for doc in ("eds", "dcf"):
                n += 1
                v = _var(dt, default={"k": "int", "v": val}, value={"k": "int", "v": other},
                         low={"k": "int", "v": min(val, other)}, high={"k": "int", "v": max(val, other)},
                         pdo=n % 2)
                o = {"kind": "var", "index": 0x2000 + dt, "name": f"v {n}", "sp": 0, "storage": None, "var": v}
                com = {"node_id": 1 + n % 127, "baudrate": em.STD_BAUD[n % 8], "baud_hex": False}
                yield {"model": _model([o], commissioning=com), "route": "code", "node_arg": None,
                       "doc": doc, "dest": DESTS[(n // 2) % 4], "family": "enum/bounds"}
    # every sub-index 1..0xFE in records/arrays of 20 members
    subs = list(range(1, 0xFF))
    for start in range(0, len(subs), 19):
        chunk = subs[start:start + 19]
        for kind in ("record", "array"):
            n += 1
            members = [_var(rc.UNSIGNED8, sub=0, name="count", access="ro", default={"k": "int", "v": len(chunk)})]
            members += [_var(rc.INTEGER16, sub=s, name=f"m {s:x}", default={"k": "int", "v": -s}) for s in chunk]
            o = {"kind": kind, "index": 0x6000 + start, "name": f"{kind} {start}", "sp": 0,
                 "storage": None, "members": members}
            for doc in ("eds", "dcf"):
                yield {"model": _model([o]), "route": "code", "node_arg": None, "doc": doc,
                       "dest": DESTS[n % 4], "family": "enum/subs", "edit": True}
    # node ids and bit rates (DCF)
    for node in range(1, 128):
        n += 1
        v = _var(rc.UNSIGNED32, default={"k": "int", "v": 0x180 + node})
        o = {"kind": "var", "index": 0x1400, "name": "cob", "sp": 0, "storage": None, "var": v}
        com = {"node_id": node, "baudrate": em.STD_BAUD[n % 8] if n % 9 else None, "baud_hex": False}
        yield {"model": _model([o], commissioning=com), "route": "code", "node_arg": None, "doc": "dcf",
               "dest": DESTS[n % 4], "family": "enum/node", "edit": n % 2 == 0}


@st.composite
def cases(draw):
    flags = draw(st.integers(0, 0xFFF))
    route = "text" if flags % 5 < 2 else "code"                   # 40 % text, 60 % code
    if route == "code":
        model = draw(em.models(doc="dcf", for_export=True, allow_rel=False, max_objects=4))
        node_arg = None
    else:
        model = draw(em.models(for_export=True, allow_rel=True, max_objects=4))
        node_arg = draw(st.one_of(st.none(), st.integers(1, 127)))
    if (flags >> 8) & 0xF == 0xF and model["comments"]:
        model["comments"] = model["comments"] + [""]               # G1 (reported), excluded + counted
    return {"model": model, "route": route, "node_arg": node_arg,
            "doc": "dcf" if (flags >> 3) & 1 else "eds",
            "dest": DESTS[(flags >> 4) & 3], "family": "hyp", "edit": route == "code" and bool((flags >> 6) & 1)}


def search(ctx):
    ctx.enumerate(enum_cases(ctx.tier),
                  "boundary values of every integer type as default/parameter value/limits x eds/dcf; every "
                  "sub-index 1..0xFE in records and arrays; node ids 1..127 x bit rates")
    total, chunk = (16000, 500) if ctx.tier == "thorough" else (1100, 275)
    hyp_chunks(ctx, cases(), total, chunk)
    if _feature_counts and ctx.shard == 0:
        ctx.notes.append("shard 0 feature counts (cases containing the feature): " +
                         ", ".join(f"{k}={v}" for k, v in sorted(_feature_counts.items())))
