"""C14 - exporting a dictionary to EDS/DCF and importing it again loses nothing.

SUT: canopen.export_od -> export_eds / export_dcf / _revert_variable, then
canopen.import_od on the produced document.

The dictionary is obtained in one of two ways from the abstract model of
harness/edsmodel.py (no canopen types):
  route "code"  built with ObjectDictionary/ODVariable/ODRecord/ODArray (no default_raw)
  route "text"  imported from the text of the independent C08 writer (verbatim
                default_raw / value_raw, $NODEID defaults present)
A snapshot (plain dicts) of every attribute the property names is taken BEFORE the
export; the re-imported dictionary is compared with that snapshot, so an export that
damaged its argument is seen too.

Clause -> case family
  same objects / kinds / names / sub-indices      every case; enum/subs (every sub-index 1..0xFE in records
                                                  and arrays of 20 members), hyp records/arrays 1..20 members
  data types, access types, PDO-mappability       hyp (all 23 types, 6 access types), enum/bounds
  default values incl. negative ones              enum/bounds (every boundary value of every integer type as
                                                  default + parameter value), hyp (REAL, strings, bytes, bool)
  limits                                          enum/bounds (low/high at boundary values, every width), hyp
  storage locations, factor/unit/description      hyp (variables, records and arrays)
  device information and comments                 hyp (typed DeviceInformation, baud-rate set, 0..4 comment lines)
  DCF: parameter values, bit rate, node id        hyp + enum (doc type dcf), node id 1..127, 8 CiA bit rates
  relative ($NODEID) defaults                     route "text" with node id from the file or given explicitly
  names with spaces, '%', '=', '.'                hyp (name alphabet of the C08 writer)
  destination does not change the document        every case exports to all three destinations (path with
                                                  .eds/.dcf suffix - doc type inferred or given -, StringIO +
                                                  doc_type, None -> captured sys.stdout); the documents must
                                                  be identical character by character (files are read back
                                                  without newline translation) once the four date/time values
                                                  of [FileInfo] are masked; the case picks which one is
                                                  re-imported.  File names: absolute, a bare name in the
                                                  current directory, a relative path, a name with several
                                                  dots, a name whose directory and stem contain the suffix of
                                                  the OTHER document type (drive.dcf.d/x.dcf.eds)
  values outside the short pools ("extras")       hyp + enum/extras: factor = any finite float (7+ significant
                                                  digits), description without unit, storage location = any
                                                  word (mixed / lower case) on variables, members, records and
                                                  arrays, LowLimit/HighLimit on REAL32/REAL64 (bit-exact),
                                                  DCF bit rate = any multiple of 1000 bit/s (1..1000 kbit/s)
  "every dictionary" incl. one that has been      histories (case["history"], case["donor"]): after the first
  exported before and changed since               export/import the SAME dictionary object is changed through its
                                                  public mapping API - remove an object (del od[index], del
                                                  od[name], od.pop), add an object at a freed or a new index
                                                  (add_object), put the removed object back (od[index] = obj),
                                                  remove a record member (del rec[sub]), add a member
                                                  (add_member), change every default / value - and after EVERY
                                                  step exported (eds or dcf; stream, file name or stdout) and
                                                  re-imported; the result must equal a snapshot of the dictionary
                                                  as it is at that moment.  enum/history: every sequence of 2
                                                  (thorough: 3, a sample of 4) operations on a dictionary with
                                                  objects in all three object lists; hyp: 1..6 drawn operations
"""
import contextlib
import io
import math
import os
from collections import Counter

from hypothesis import strategies as st

from harness import edsmodel as em
from harness import refcodec as rc
from harness.c08 import DEVINFO_ATTR, hyp_chunks, scratch_dir
from harness.core import Discrepancy, Outcome

PROPERTY = "C14"
LEVEL = "exploration"
RULE = ("case = (abstract dictionary model, route code|text, document type eds|dcf, destination that is "
        "re-imported: path with inferred doc type | path with explicit doc type | StringIO | stdout; also written: "
        "a path with several dots in directory and file name, a path whose directory and stem carry the suffix "
        "of the other document type (drive.dcf.d/x.dcf.eds), a bare file name in the current directory and a "
        "relative path). Code-built dictionaries may then have every "
        "default / parameter value changed and be exported and imported a second time. "
        "Models have 1..5 objects (VAR/DOMAIN/ARRAY/RECORD of 1..20 members) over 0x1000..0x9FFF, all 23 "
        "data types, defaults / parameter values / limits at the range ends of every integer width incl. "
        "negative ones, REAL/string/byte defaults, storage location, factor/unit/description, device "
        "information, baud rates, comments, node id 1..127, CiA bit rates. On top of the shared model generator "
        "0..5 drawn 'extras' replace pool values: factor = any finite float, description independent of unit, "
        "storage location = any word of letters/digits/'_' in any letter case (variables, members, records, "
        "arrays), float LowLimit/HighLimit on REAL32/REAL64 objects, DCF bit rate = any 1..1000 kbit/s; the "
        "family enum/extras enumerates long-mantissa factors, REAL limit pairs, mixed-case storage words and "
        "non-CiA bit rates in both routes. Histories (25 % of the drawn cases + family enum/history = every "
        "sequence of 2 [thorough: 3, sample of 4] operations of a 12-letter alphabet on an 8-object dictionary "
        "with objects in the mandatory, optional and manufacturer lists): after the first round trip the same "
        "dictionary object is changed by 1..6 operations of its public mapping API - export only, remove an object "
        "(del od[index] | del od[name] | od.pop(index); at least one object stays), add_object of a donor object "
        "at its own index when free (possibly just freed) else the next free index, od[index] = the object removed "
        "last, del record[sub] (sub > 0), add_member at highest sub + 1 (arrays: element type), change every "
        "default / value (code-built only) - and after every operation exported (eds | dcf; stream | file name | "
        "stdout) and re-imported; oracle = the same attribute-wise comparison against a snapshot taken from "
        "od.indices / subindices immediately before that export; an operation that is not applicable to the "
        "dictionary as it is then (nothing removed yet, no record, ...) counts as export only. "
        "Oracle: attribute-wise equality "
        "of import_od(export_od(od)) with a snapshot of od taken before the export (DCF additionally value, "
        "bit rate, node id; REAL limits and REAL defaults bit-exact) + all destinations give the same document, "
        "character by character incl. line ends, once the values of CreationDate/CreationTime/ModificationDate/"
        "ModificationTime in [FileInfo] are masked. "
        "Non-trivial = dictionary with a negative default/parameter value, a limit on an odd-width integer, "
        "a record or a relative default; distinct = canonical JSON of the case.")
ASSUMPTIONS = [
    "texts (names, string defaults, unit, description, comments, device info) are ASCII without ';' '#' '$', "
    "line breaks or leading/trailing blanks (the INI carrier strips blanks and treats ' ;' as a comment)",
    "access types are lower case; limits only on integer and REAL types and inside the type's range (REAL "
    "limits are finite floats); storage location is None or a non-empty word of letters, digits and '_'; "
    "node id 1..127; bit rate a multiple of 1000 bit/s between 1 and 1000 kbit/s; factor a finite float",
    "an EDS cannot carry the node id: the EDS is re-imported with node_id=od.node_id so that $NODEID "
    "defaults resolve as before; the DCF is re-imported without argument",
    "route text: when import_od did not record the explicitly given node id (no [DeviceComissioning] in "
    "the source) the harness sets od.node_id itself before exporting",
    "[FileInfo] of the re-imported dictionary is not compared; between the destinations of one case only the "
    "values of its four date/time keys are masked (export_eds' mutable default argument leaks keys between "
    "calls, but identically for every destination of one dictionary)",
    "run_case changes the current directory to the scratch directory while it exports to relative file names "
    "and restores it afterwards",
    "compact arrays of a model are built in code as arrays with explicit members (at most 20)",
    "histories: a dictionary that was changed through ObjectDictionary.__delitem__ / pop / add_object / "
    "__setitem__, ODRecord.__delitem__, ODRecord/ODArray.add_member is still 'an object dictionary' of the "
    "property; added objects get names that are not yet lookup keys of the dictionary (top-level names and "
    "'Parent.Child'), indices stay inside 0x1000..0x9FFF, sub 0 is never removed, at most 21 members",
]
BUDGET = {"quick": 150, "thorough": 240}

_feature_counts = Counter()
VAR_ATTRS = ("name", "index", "subindex", "data_type", "access_type", "pdo_mappable", "default",
             "min", "max", "storage_location", "factor", "unit", "description")


# ---- building a dictionary in code ----------------------------------------------
def _py_value(dt, spec):
    if spec is None:
        return None
    known, v = em.spec_value(spec, None)
    assert known, spec
    if dt == rc.BOOLEAN:
        return bool(v)
    return v


def _build_var(v, index, sub, name=None):
    from canopen.objectdictionary import ODVariable
    var = ODVariable(v["name"] if name is None else name, index, sub)
    var.data_type = v["dt"]
    var.access_type = v["access"]
    var.pdo_mappable = bool(v["pdo"])
    var.default = _py_value(v["dt"], v["default"])
    var.value = _py_value(v["dt"], v["value"])
    if v["low"] is not None:
        var.min = v["low"]["v"]
    if v["high"] is not None:
        var.max = v["high"]["v"]
    var.storage_location = v["storage"]
    if v["factor"] is not None:
        var.factor = v["factor"]
    if v["unit"] is not None:
        var.unit = v["unit"]
    if v["description"] is not None:
        var.description = v["description"]
    return var


def _build_object(o, index=None, name=None):
    """One top-level object of the abstract model as a canopen object (optionally at another index / under
    another name: objects added to an existing dictionary by a history)."""
    from canopen.objectdictionary import ODArray, ODRecord, ODVariable
    kind = o["kind"]
    index = o["index"] if index is None else index
    name = o["name"] if name is None else name
    if kind in ("var", "domain"):
        return _build_var(em.top_var(o), index, 0, name=name)
    obj = (ODRecord if kind == "record" else ODArray)(name, index)
    obj.storage_location = o["storage"]
    if kind == "compact":
        zero = ODVariable("Number of entries", index, 0)
        zero.data_type = rc.UNSIGNED8
        zero.access_type = "ro"
        zero.default = min(o["n"], 20)
        obj.add_member(zero)
        for k in range(1, min(o["n"], 20) + 1):
            nm = o["names"][k - 1] if o["names"] is not None and k <= len(o["names"]) else f"{name} {k}"
            obj.add_member(_build_var(o["var"], index, k, name=nm))
    else:
        for m in o["members"]:
            obj.add_member(_build_var(m, index, m["sub"]))
    return obj


def build_od(model):
    from canopen.objectdictionary import ObjectDictionary
    od = ObjectDictionary()
    for o in model["objects"]:
        od.add_object(_build_object(o))
    info = od.device_information
    for key, val in (model["devinfo"] or {}).items():
        setattr(info, DEVINFO_ATTR[key], bool(val) if key in em.DEVINFO_BOOL else val)
    for kb in model["baud"]:
        info.allowed_baudrates.add(kb * 1000)
    od.comments = "\n".join(model["comments"] or [])
    com = model["commissioning"]
    if com is not None:
        od.node_id = com["node_id"]
        od.bitrate = None if com["baudrate"] is None else com["baudrate"] * 1000
    return od


# ---- snapshot / comparison ---------------------------------------------------------
def _snap_var(var):
    d = {a: getattr(var, a) for a in VAR_ATTRS}
    d["value"] = var.value
    d["relative"] = var.relative
    return d


def snapshot(od):
    from canopen.objectdictionary import ODVariable
    objs = {}
    for index, obj in od.indices.items():
        if isinstance(obj, ODVariable):
            objs[index] = {"kind": type(obj).__name__, "name": obj.name, "var": _snap_var(obj)}
        else:
            objs[index] = {"kind": type(obj).__name__, "name": obj.name, "storage": obj.storage_location,
                           "subs": {s: _snap_var(m) for s, m in obj.subindices.items()}}
    info = od.device_information
    return {"objects": objs, "comments": od.comments, "node_id": od.node_id, "bitrate": od.bitrate,
            "devinfo": {attr: getattr(info, attr) for attr in DEVINFO_ATTR.values()},
            "baud": set(info.allowed_baudrates)}


def _same(dt, a, b):
    if a is None or b is None:
        return a is None and b is None
    if dt in rc.REALS:
        return isinstance(b, float) and rc.float_bits_equal(float(a), b)
    if dt in rc.INTEGERS:
        return isinstance(b, int) and not isinstance(b, bool) and a == b
    if dt in em.BYTES_TYPES:
        return bytes(a) == bytes(b)
    return a == b and (dt == rc.BOOLEAN or type(a) is type(b))


def _cmp_var(D, where, a, b, dcf):
    dt = a["data_type"]
    for attr in VAR_ATTRS:
        x, y = a[attr], b[attr]
        if attr == "default":
            ok = _same(dt, x, y)
            attr_sig = "default/negative" if isinstance(x, int) and not isinstance(x, bool) and x < 0 else "default"
        elif attr in ("min", "max"):
            if x is None or y is None:
                ok = x is None and y is None
            elif dt in rc.REALS:
                # a limit of a REAL object is a float; the same limit = the same float, bit for bit
                ok = isinstance(y, float) and rc.float_bits_equal(float(x), y)
            else:
                ok = isinstance(y, int) and not isinstance(y, bool) and x == y
            attr_sig = "limit/" + attr
        elif attr == "pdo_mappable":
            ok = bool(x) == bool(y) and isinstance(y, (bool, int))
            attr_sig = attr
        else:
            ok = x == y
            attr_sig = attr
        if not ok:
            D.append(Discrepancy(f"C14/{attr_sig}", f"{where}: {attr} {x!r} -> {y!r} ({rc.NAMES.get(dt, dt)})"))
            return False
    if dcf and not _same(dt, a["value"], b["value"]):
        D.append(Discrepancy("C14/value", f"{where}: value {a['value']!r} -> {b['value']!r} "
                                          f"({rc.NAMES.get(dt, dt)})"))
        return False
    return True


def compare(D, before, after, dcf):
    A, B = before["objects"], after["objects"]
    if set(A) != set(B):
        D.append(Discrepancy("C14/objects", f"objects {sorted(hex(i) for i in A)} -> {sorted(hex(i) for i in B)}"))
        return
    for index in sorted(A):
        a, b = A[index], B[index]
        where = f"{index:04X}"
        if a["kind"] != b["kind"]:
            return D.append(Discrepancy("C14/kind", f"{where}: {a['kind']} -> {b['kind']}"))
        if a["name"] != b["name"]:
            return D.append(Discrepancy("C14/name", f"{where}: name {a['name']!r} -> {b['name']!r}"))
        if "var" in a:
            if not _cmp_var(D, where, a["var"], b["var"], dcf):
                return
            continue
        if a["storage"] != b["storage"]:
            return D.append(Discrepancy("C14/storage_location", f"{where}: storage {a['storage']!r} -> {b['storage']!r}"))
        if set(a["subs"]) != set(b["subs"]):
            return D.append(Discrepancy("C14/subindices", f"{where}: sub-indices {sorted(a['subs'])} -> "
                                                          f"{sorted(b['subs'])}"))
        for s in sorted(a["subs"]):
            if not _cmp_var(D, f"{where}sub{s:X}", a["subs"][s], b["subs"][s], dcf):
                return
    for attr, x in before["devinfo"].items():
        y = after["devinfo"][attr]
        if x != y or (x is not None and isinstance(x, bool) != isinstance(y, bool)):
            return D.append(Discrepancy(f"C14/devinfo/{attr}", f"device_information.{attr} {x!r} -> {y!r}"))
    if before["baud"] != after["baud"]:
        return D.append(Discrepancy("C14/devinfo/baudrates", f"allowed_baudrates {sorted(before['baud'])} -> "
                                                             f"{sorted(after['baud'])}"))
    if before["comments"] != after["comments"]:
        return D.append(Discrepancy("C14/comments", f"comments {before['comments']!r} -> {after['comments']!r}"))
    if dcf:
        if before["bitrate"] != after["bitrate"]:
            return D.append(Discrepancy("C14/bitrate", f"bitrate {before['bitrate']!r} -> {after['bitrate']!r}"))
        if before["node_id"] != after["node_id"]:
            return D.append(Discrepancy("C14/node_id", f"node_id {before['node_id']!r} -> {after['node_id']!r}"))


# ---- documents ---------------------------------------------------------------------
TIME_KEYS = ("CreationDate", "CreationTime", "ModificationDate", "ModificationTime")


def doc_lines(text, fileinfo=True):
    """The document as a list of lines (split at LF only, so a CR stays visible) with the values of the
    four date/time keys of [FileInfo] masked; fileinfo=False drops the whole section."""
    out, inside = [], False
    for line in text.split("\n"):
        s = line.strip()
        if s.startswith("[") and s.endswith("]"):
            inside = s == "[FileInfo]"
        elif inside and "=" in line:
            key = line.split("=", 1)[0].strip()
            if key in TIME_KEYS:
                line = key + " = <time>" + ("\r" if line.endswith("\r") else "")
        if fileinfo or not inside:
            out.append(line)
    return out


def strip_fileinfo(text):
    return "\n".join(doc_lines(text, fileinfo=False))


def destination_difference(ref_text, text):
    """None when both documents are the same, else (signature suffix, first difference)."""
    a, b = doc_lines(ref_text), doc_lines(text)
    if a == b:
        return None
    first = next((f"{x!r} vs {y!r}" for x, y in zip(a, b) if x != y), f"{len(a)} vs {len(b)} lines")
    if [x.rstrip("\r") for x in a] == [y.rstrip("\r") for y in b]:
        return "/line-ends", first
    if doc_lines(ref_text, False) == doc_lines(text, False):
        return "/fileinfo", first
    return "", first


def _read_raw(path):
    with open(path, newline="") as f:          # no newline translation: the document as it is in the file
        return f.read()


def export_all(od, doc, light=False):
    """-> {destination kind: document text}, paths of the files that may be re-imported.
    light: only the four destinations a case can name (family enum/history, whose subject is what follows)"""
    import canopen
    docs = {}
    pid = os.getpid()
    path = os.path.join(scratch_dir(), f"{pid}-exp.{doc}")
    canopen.export_od(od, path)
    docs["path"] = _read_raw(path)
    path2 = os.path.join(scratch_dir(), f"{pid}-exp2.{doc}")
    canopen.export_od(od, path2, doc_type=doc)
    docs["path+type"] = _read_raw(path2)
    if light:
        buf = io.StringIO()
        canopen.export_od(od, buf, doc_type=doc)
        docs["stream"] = buf.getvalue()
        out = io.StringIO()
        with contextlib.redirect_stdout(out):
            canopen.export_od(od, None, doc_type=doc)
        docs["stdout"] = out.getvalue()
        return docs, {"path": path, "path+type": path2}
    other = "dcf" if doc == "eds" else "eds"
    # a file name and a directory with more dots than the one in front of the suffix
    ddir = os.path.join(scratch_dir(), "rev1.2")
    os.makedirs(ddir, exist_ok=True)
    path4 = os.path.join(ddir, f"{pid}-node9.v2.{doc}")
    canopen.export_od(od, path4)
    docs["path with several dots"] = _read_raw(path4)
    # the suffix of the OTHER document type in the directory name and in front of the real suffix:
    # the document type follows from the suffix (= the end) of the file name only
    odir = os.path.join(scratch_dir(), f"drive.{other}.d")
    os.makedirs(odir, exist_ok=True)
    path5 = os.path.join(odir, f"{pid}-dev.{other}.{doc}")
    canopen.export_od(od, path5)
    docs[f"path drive.{other}.d/dev.{other}.{doc}"] = _read_raw(path5)
    path3 = os.path.join(scratch_dir(), f"{pid}-exp3.{other}")
    canopen.export_od(od, path3, doc_type=doc)       # the suffix is only the default for doc_type
    docs["path+type, other suffix"] = _read_raw(path3)
    # file names that are not absolute: a bare name in the current directory, a relative path
    cwd = os.getcwd()
    os.makedirs(os.path.join(scratch_dir(), "rel.d"), exist_ok=True)
    try:
        os.chdir(scratch_dir())
        bare = f"{pid}-bare.{doc}"
        canopen.export_od(od, bare)
        docs["bare file name in the current directory"] = _read_raw(bare)
        rel = os.path.join("rel.d", f"{pid}-rel.{doc}")
        canopen.export_od(od, rel)
        docs["relative path"] = _read_raw(rel)
    finally:
        os.chdir(cwd)
    buf = io.StringIO()
    canopen.export_od(od, buf, doc_type=doc)
    docs["stream"] = buf.getvalue()
    out = io.StringIO()
    with contextlib.redirect_stdout(out):
        canopen.export_od(od, None, doc_type=doc)
    docs["stdout"] = out.getvalue()
    return docs, {"path": path, "path+type": path2}


def excluded_class(case):
    model = case["model"]
    ex = em.excluded_class(model)
    if ex:
        return ex
    # G1 (comments ending in an empty line) was repaired in /repo (commit 3761bfa): not excluded
    return None


def run_case(case) -> Outcome:
    import canopen
    model, route, doc, dest = case["model"], case["route"], case["doc"], case["dest"]
    ex = excluded_class(case)
    if ex:
        return Outcome(excluded=ex)
    feats = em.features(model)
    # ---- obtain the dictionary
    if route == "code":
        od = build_od(model)
    else:
        s = io.StringIO(em.render(model))
        s.name = "src." + model["doc"]
        od = canopen.import_od(s, case["node_arg"])
        if od.node_id is None and case["node_arg"] is not None:
            od.node_id = case["node_arg"]
    before = snapshot(od)
    # what the generator put in, independently of the object that carries it (a set shared between
    # dictionaries would make the object's own content wrong already)
    want_baud = {kb * 1000 for kb in (model["baud"] or [])}
    if before["baud"] != want_baud:
        return Outcome(True, "setup", [Discrepancy(
            "C14/devinfo/baudrates-before-export",
            f"the dictionary holds allowed_baudrates {sorted(before['baud'])}, the {route}-built source "
            f"describes {sorted(want_baud)}")])
    nt = set()
    for o in before["objects"].values():
        vars_ = [o["var"]] if "var" in o else list(o["subs"].values())
        if o["kind"] == "ODRecord":
            nt.add("record")
        for v in vars_:
            for x in (v["default"], v["value"] if doc == "dcf" else None):
                if isinstance(x, (int, float)) and not isinstance(x, bool) and x < 0:
                    nt.add("negval")
            if v["data_type"] in em.ODD and (v["min"] is not None or v["max"] is not None):
                nt.add("oddlimit")
            if v["relative"]:
                nt.add("rel")
    for f in nt:
        _feature_counts[f] += 1
    # value classes outside the short pools of the shared generator (measured on the dictionary itself)
    xf = set()
    for o in before["objects"].values():
        if o.get("storage") is not None and not o["storage"].isupper():
            xf.add("x-storage-case")
        for v in ([o["var"]] if "var" in o else list(o["subs"].values())):
            if v["factor"] != 1 and v["factor"] not in POOL_FACTORS:
                xf.add("x-factor")
            if v["description"] != "" and v["unit"] == "":
                xf.add("x-description-without-unit")
            if v["storage_location"] is not None and not v["storage_location"].isupper():
                xf.add("x-storage-case")
            if v["data_type"] in rc.REALS and (v["min"] is not None or v["max"] is not None):
                xf.add("x-real-limit")
    if doc == "dcf" and before["bitrate"] is not None and before["bitrate"] not in CIA_BITRATES:
        xf.add("x-bitrate")
    for f in xf:
        _feature_counts[f] += 1
    family = case.get("family", "hyp")
    klass = (f"{family}/{route}/{doc}" if family == "enum/extras" else f"{family}/{doc}" if family != "hyp" else
             f"hyp/{route}/{doc}/{dest}/" + ("+".join(sorted(nt)) or "plain") + ("/ext" if xf else "") +
             ("/hist" if case.get("history") else ""))
    D = []
    # ---- export to every destination
    try:
        docs, paths = export_all(od, doc, light=family == "enum/history")
    except Exception as e:
        return Outcome(bool(nt), klass, [Discrepancy(f"C14/export-raises/{type(e).__name__}",
                                                     f"export_od raised {type(e).__name__}: {e}")])
    for kind, text in docs.items():
        diff = destination_difference(docs[dest], text)
        if diff is not None:
            return Outcome(bool(nt), klass, [Discrepancy(
                "C14/destination" + diff[0],
                f"document written to {kind} differs from the one written to {dest}: {diff[1]}")])
    if snapshot(od) != before:
        return Outcome(bool(nt), klass, [Discrepancy("C14/export-mutates", "export_od changed the dictionary")])
    # ---- import the document again
    node = None if doc == "dcf" else od.node_id
    try:
        if dest in paths:
            od2 = canopen.import_od(paths[dest], node)
        else:
            s = io.StringIO(docs[dest])
            s.name = "again." + doc
            od2 = canopen.import_od(s, node)
    except Exception as e:
        return Outcome(bool(nt), klass, [Discrepancy(f"C14/reimport-raises/{type(e).__name__}",
                                                     f"import of the exported {doc} raised {type(e).__name__}: {e}")])
    compare(D, before, snapshot(od2), doc == "dcf")
    # by-name lookup in the re-imported dictionary reaches the object at the index
    if not D:
        for index, o in before["objects"].items():
            try:
                if od2[o["name"]] is not od2[index]:
                    D.append(Discrepancy("C14/lookup", f"od2[{o['name']!r}] is not od2[{index:#x}]"))
                    break
            except KeyError:
                D.append(Discrepancy("C14/lookup", f"od2[{o['name']!r}] raises KeyError"))
                break
    # ---- the application edits defaults / values of a dictionary it built and exports it again
    if not D and case.get("edit") and route == "code":
        n_edit = _edit_values(od)
        before2 = snapshot(od)
        try:
            buf = io.StringIO()
            canopen.export_od(od, buf, doc_type=doc)
            s = io.StringIO(buf.getvalue())
            s.name = "edited." + doc
            od3 = canopen.import_od(s, node)
        except Exception as e:
            return Outcome(bool(nt), klass, [Discrepancy(f"C14/after-edit/raises/{type(e).__name__}",
                                                         f"second export/import raised {type(e).__name__}: {e}")])
        D2 = []
        compare(D2, before2, snapshot(od3), doc == "dcf")
        D = [Discrepancy("C14/after-edit/" + d.signature.split("/", 1)[1],
                         f"after {n_edit} defaults/values were changed and the dictionary exported again: {d.detail}")
             for d in D2]
    # ---- the application goes on using the dictionary: objects are removed, added, put back, members come
    # ---- and go, values change; after every step the dictionary as it is then is exported and imported
    if not D and case.get("history"):
        D = _run_history(od, case, doc)
    return Outcome(bool(nt), klass, D[:1])


# ---- histories: one dictionary object used again and again ------------------------------------
LO_INDEX, HI_INDEX = 0x1000, 0x9FFF
OP_KINDS = ("export", "del", "add", "restore", "delmember", "addmember", "edit")


def _keys_in_use(od):
    """Every string that is a lookup key of the dictionary now: top-level names and 'Parent.Child'."""
    from canopen.objectdictionary import ODVariable
    used = set()
    for obj in od.indices.values():
        used.add(obj.name)
        if not isinstance(obj, ODVariable):
            for m in obj.subindices.values():
                used.add(obj.name + "." + m.name)
    return used


def _free_name(name, used):
    k, cand = 0, name
    while cand in used:
        k += 1
        cand = f"{name}_h{k}"
    return cand


def _apply_op(od, h, step, state, case):
    """Apply one history operation through the public mapping API of ObjectDictionary / ODRecord / ODArray.
    -> short description, or None when the operation is not applicable to the dictionary as it is now."""
    from canopen.objectdictionary import ODArray, ODRecord, ODVariable
    op, sel = h["op"], h.get("sel", 0)
    indices = sorted(od.indices)
    if op == "export":
        return "export"
    if op == "del":
        if len(indices) < 2:
            return None                                   # keep at least one object
        index = indices[sel % len(indices)]
        obj = od.indices[index]
        how = h.get("how", "del")
        if how == "name" and sum(1 for x in od.indices.values() if x.name == obj.name) == 1:
            del od[obj.name]                              # a top-level name is looked up first
        elif how == "pop":
            od.pop(index)
        else:
            how = "del"
            del od[index]
        state["removed"].append(obj)
        return f"{how} {index:#06x}"
    if op == "add":
        donor = case.get("donor") or []
        if not donor:
            return None
        o = donor[sel % len(donor)]
        index = o["index"]
        for _ in range(HI_INDEX - LO_INDEX + 1):
            if index not in od.indices:
                break
            index = index + 1 if index < HI_INDEX else LO_INDEX
        else:
            return None
        used = _keys_in_use(od)
        name = _free_name(o["name"], used)
        members = [m["name"] for m in o.get("members") or []] + list(o.get("names") or [])
        while any(name + "." + m in used for m in members):
            name = _free_name(name + "_", used)
        od.add_object(_build_object(o, index=index, name=name))
        return f"add {o['kind']} at {index:#06x}"
    if op == "restore":
        if not state["removed"]:
            return None
        obj = state["removed"][-1]
        used = _keys_in_use(od)
        keys = {obj.name}
        if not isinstance(obj, ODVariable):
            keys |= {obj.name + "." + m.name for m in obj.subindices.values()}
        if obj.index in od.indices or keys & used:
            return None
        state["removed"].pop()
        od[obj.index] = obj                               # MutableMapping.__setitem__
        return f"restore {obj.index:#06x}"
    if op == "delmember":
        recs = [i for i in indices if isinstance(od.indices[i], ODRecord)
                and any(s > 0 for s in od.indices[i].subindices)]
        if not recs:
            return None
        rec = od.indices[recs[sel % len(recs)]]
        subs = sorted(s for s in rec.subindices if s > 0)
        sub = subs[h.get("sel2", 0) % len(subs)]
        del rec[sub]                                      # ODRecord is a MutableMapping
        return f"del {rec.index:#06x} sub {sub}"
    if op == "addmember":
        conts = [i for i in indices if isinstance(od.indices[i], (ODRecord, ODArray))]
        if not conts:
            return None
        cont = od.indices[conts[sel % len(conts)]]
        sub = max(list(cont.subindices) + [0]) + 1
        if sub > 0xFE or len(cont.subindices) >= 21:
            return None
        dt = h["dt"]
        if isinstance(cont, ODArray):                     # the elements of an array share one type
            same = [m.data_type for s, m in sorted(cont.subindices.items()) if s > 0]
            if same:
                dt = same[-1]
        if dt not in rc.INTEGERS:
            dt = rc.INTEGER16
        b = em.bounds(dt)
        used = _keys_in_use(od)
        name = f"member {sub:x} h{step}"
        while name in {m.name for m in cont.subindices.values()} or cont.name + "." + name in used:
            name += "_"
        v = _var(dt, sub=sub, name=name, default={"k": "int", "v": b[h.get("sel2", 0) % len(b)]},
                 value={"k": "int", "v": b[(h.get("sel2", 0) * 7 + 3) % len(b)]})
        cont.add_member(_build_var(v, cont.index, sub))
        return f"add {cont.index:#06x} sub {sub} ({rc.NAMES.get(dt, dt)})"
    if op == "edit":
        if case["route"] != "code":
            return None                                   # imported objects keep the text of their values
        return f"edit {_edit_values(od)} values"
    raise ValueError(op)


def _export_to(od, doc, how):
    import canopen
    if how == "path":
        path = os.path.join(scratch_dir(), f"{os.getpid()}-hist.{doc}")
        canopen.export_od(od, path)
        return _read_raw(path)
    if how == "stdout":
        out = io.StringIO()
        with contextlib.redirect_stdout(out):
            canopen.export_od(od, None, doc_type=doc)
        return out.getvalue()
    buf = io.StringIO()
    canopen.export_od(od, buf, doc_type=doc)
    return buf.getvalue()


def _run_history(od, case, doc0):
    import canopen
    state = {"removed": []}
    done = []
    for step, h in enumerate(case["history"], 1):
        what = _apply_op(od, h, step, state, case)
        if what is None:
            _feature_counts["h-not-applicable"] += 1
            what = "export"
        else:
            _feature_counts["h-" + h["op"]] += 1
        done.append(what)
        doc = h.get("doc") or doc0
        trail = f"after {' ; '.join(done)} (step {step}, {doc} to {h.get('to', 'stream')})"
        before = snapshot(od)
        try:
            text = _export_to(od, doc, h.get("to", "stream"))
        except Exception as e:
            return [Discrepancy(f"C14/history/export-raises/{type(e).__name__}",
                                f"{trail}: export_od raised {type(e).__name__}: {e}")]
        if snapshot(od) != before:
            return [Discrepancy("C14/history/export-mutates", f"{trail}: export_od changed the dictionary")]
        try:
            s = io.StringIO(text)
            s.name = f"step{step}.{doc}"
            od2 = canopen.import_od(s, None if doc == "dcf" else od.node_id)
        except Exception as e:
            return [Discrepancy(f"C14/history/reimport-raises/{type(e).__name__}",
                                f"{trail}: import of the exported {doc} raised {type(e).__name__}: {e}")]
        D = []
        compare(D, before, snapshot(od2), doc == "dcf")
        if D:
            return [Discrepancy("C14/history/" + D[0].signature.split("/", 1)[1], f"{trail}: {D[0].detail}")]
    return []


def _edited(dt, x):
    if dt == rc.BOOLEAN:
        return not x
    if dt in rc.INTEGERS:
        lo, hi = rc.int_range(dt)
        return x + 1 if x < hi else x - 1
    if dt in rc.REALS:
        return 2.5 if x == 1.5 else 1.5
    if dt in em.BYTES_TYPES:
        return bytes(x) + b"\x01"
    return x + "x" if isinstance(x, str) else x


def _edit_values(od):
    from canopen.objectdictionary import ODVariable
    n = 0
    for obj in od.indices.values():
        for var in ([obj] if isinstance(obj, ODVariable) else list(obj.subindices.values())):
            for attr in ("default", "value"):
                x = getattr(var, attr)
                if x is not None and var.data_type in em.ALL_TYPES:
                    setattr(var, attr, _edited(var.data_type, x))
                    n += 1
    return n


# ---- extras: value classes the shared model generator only takes from short pools ------------
POOL_FACTORS = (0.1, 0.001, 10.0, 2.5, -1.0, 1e-06, 3.0, 0.5, 1000.0)      # em._FACTOR
CIA_BITRATES = tuple(kb * 1000 for kb in em.STD_BAUD)
REAL32_MAX = 3.4028234663852886e38
FACTORS = [0.3048006, 1 / 3, 0.1 + 0.2, 1e-07, 123456789.125, 6.02214076e+23, -0.000123456789,
           1.0000001, 16777217.0, 2.2250738585072014e-308, 0.01745329251994329, 9.80665]
REAL_LIMITS = [(-273.15, 1234.56789), (1e-07, 1.0000001), (-0.0, 16777217.0), (-REAL32_MAX, REAL32_MAX),
               (None, 0.1), (1 / 3, None), (-1.401298464324817e-45, 1.17549435e-38), (2.5, -1.5)]
STORAGE_WORDS = ["Flash_Bank2", "eeprom", "Ram", "rOM", "persist_comm", "nvm0", "x", "Persist_App"]
OTHER_KBIT = [1, 5, 33, 40, 83, 100, 200, 400, 666, 999]


def _real_spec(dt, x):
    if x is None:
        return None
    if dt == rc.REAL32 and abs(x) > REAL32_MAX:
        x = math.copysign(REAL32_MAX, x)             # keep the limit inside the type's range
    return {"k": "real", "v": float(x)}


def _used_names(model):
    used = set()
    for o in model["objects"]:
        used.add(o["name"])
        for m in o.get("members") or []:
            used.add(o["name"] + "." + m["name"])
        for nm in o.get("names") or []:
            used.add(o["name"] + "." + nm)
    return used


def apply_extras(model, extras):
    """Pure function model x extras -> model (in place).  Each extra replaces one attribute the shared
    generator draws from a short pool (or never) by a value of the full class; 'sel' picks the target."""
    for x in extras:
        k, sel = x["k"], x.get("sel", 0)
        vars_ = [v for _, v in em.all_vars(model)]
        if k == "factor":
            vars_[sel % len(vars_)]["factor"] = x["v"]
        elif k == "description":
            v = vars_[sel % len(vars_)]
            v["description"] = x["v"]
            if x.get("alone"):
                v["unit"] = None
        elif k == "storage":
            holders = []
            for o in model["objects"]:
                holders.append(o)
                if o["kind"] in ("record", "array"):
                    holders += o["members"]
                elif o["kind"] == "compact":
                    holders.append(o["var"])
            holders[sel % len(holders)]["storage"] = x["v"]
        elif k == "reallimits":
            reals = [v for v in vars_ if v["dt"] in rc.REALS]
            if reals:
                v = reals[sel % len(reals)]
            else:
                dt = x["dt"]
                taken = {o["index"] for o in model["objects"]}
                index = 0x2F00 + sel
                while index in taken:
                    index += 1
                name, used = "real limits", _used_names(model)
                while name in used:
                    name += "_"
                v = _var(dt, default=_real_spec(dt, x["default"]))
                model["objects"].append({"kind": "var", "index": index, "name": name, "sp": x.get("sp", 0),
                                         "storage": None, "var": v})
            v["low"] = _real_spec(v["dt"], x["low"])
            v["high"] = _real_spec(v["dt"], x["high"])
        elif k == "bitrate" and model["doc"] == "dcf":
            com = model["commissioning"]
            if com is None:
                com = model["commissioning"] = {"node_id": None, "baudrate": None, "baud_hex": False}
            com["baudrate"] = x["v"]
    return model


_SEL = st.integers(0, 255)
_FINITE = st.floats(allow_nan=False, allow_infinity=False)
_FINITE32 = st.floats(allow_nan=False, allow_infinity=False, width=32)
_LIMIT = st.one_of(st.none(), _FINITE32, _FINITE,
                   st.sampled_from([x for pair in REAL_LIMITS for x in pair if x is not None]))
_WORD = st.one_of(st.sampled_from(STORAGE_WORDS), st.text(em.LETTERS + em.DIGITS + "_", min_size=1, max_size=12))
_EXTRA = st.one_of(
    st.builds(lambda s, v: {"k": "factor", "sel": s, "v": v}, _SEL, st.one_of(st.sampled_from(FACTORS), _FINITE)),
    st.builds(lambda s, v, a: {"k": "description", "sel": s, "v": v, "alone": a}, _SEL, em.FREE_TEXT, st.booleans()),
    st.builds(lambda s, v: {"k": "storage", "sel": s, "v": v}, _SEL, _WORD),
    st.builds(lambda s, dt, lo, hi, d: {"k": "reallimits", "sel": s, "dt": dt, "low": lo, "high": hi, "default": d},
              _SEL, st.sampled_from([rc.REAL32, rc.REAL64]), _LIMIT, _LIMIT, st.one_of(st.none(), _FINITE32)),
    st.builds(lambda v: {"k": "bitrate", "v": v}, st.one_of(st.sampled_from(OTHER_KBIT), st.integers(1, 1000))),
)
_EXTRAS = st.one_of(st.just([]), st.lists(_EXTRA, min_size=1, max_size=5))


# ---- enumerated families -------------------------------------------------------------
def _var(dt, **kw):
    v = {"sub": 0, "name": "", "dt": dt, "access": "rw", "pdo": 0, "default": None, "value": None,
         "low": None, "high": None, "storage": None, "factor": None, "unit": None, "description": None,
         "sp": 0}
    v.update(kw)
    return v


def _model(objs, **kw):
    m = {"doc": "dcf", "sp": 0, "objects": objs, "dummies": None, "devinfo": None, "baud": [],
         "comments": None, "commissioning": None}
    m.update(kw)
    return m


DESTS = ["path", "path+type", "stream", "stdout"]


def enum_cases(tier):
    n = 0
    # every boundary value of every integer type as default, parameter value and limits
    for dt in sorted(rc.INTEGERS):
        b = em.bounds(dt)
        for i, val in enumerate(b):
            other = b[(i * 7 + 3) % len(b)]
            for doc in ("eds", "dcf"):
                n += 1
                v = _var(dt, default={"k": "int", "v": val}, value={"k": "int", "v": other},
                         low={"k": "int", "v": min(val, other)}, high={"k": "int", "v": max(val, other)},
                         pdo=n % 2)
                o = {"kind": "var", "index": 0x2000 + dt, "name": f"v {n}", "sp": 0, "storage": None, "var": v}
                com = {"node_id": 1 + n % 127, "baudrate": em.STD_BAUD[n % 8], "baud_hex": False}
                yield {"model": _model([o], commissioning=com), "route": "code", "node_arg": None,
                       "doc": doc, "dest": DESTS[(n // 2) % 4], "family": "enum/bounds"}
    # every sub-index 1..0xFE in records/arrays of 20 members
    subs = list(range(1, 0xFF))
    for start in range(0, len(subs), 19):
        chunk = subs[start:start + 19]
        for kind in ("record", "array"):
            n += 1
            members = [_var(rc.UNSIGNED8, sub=0, name="count", access="ro", default={"k": "int", "v": len(chunk)})]
            members += [_var(rc.INTEGER16, sub=s, name=f"m {s:x}", default={"k": "int", "v": -s}) for s in chunk]
            o = {"kind": kind, "index": 0x6000 + start, "name": f"{kind} {start}", "sp": 0,
                 "storage": None, "members": members}
            for doc in ("eds", "dcf"):
                yield {"model": _model([o]), "route": "code", "node_arg": None, "doc": doc,
                       "dest": DESTS[n % 4], "family": "enum/subs", "edit": True}
    # node ids and bit rates (DCF)
    for node in range(1, 128):
        n += 1
        v = _var(rc.UNSIGNED32, default={"k": "int", "v": 0x180 + node})
        o = {"kind": "var", "index": 0x1400, "name": "cob", "sp": 0, "storage": None, "var": v}
        com = {"node_id": node, "baudrate": em.STD_BAUD[n % 8] if n % 9 else None, "baud_hex": False}
        yield {"model": _model([o], commissioning=com), "route": "code", "node_arg": None, "doc": "dcf",
               "dest": DESTS[n % 4], "family": "enum/node", "edit": n % 2 == 0}


def enum_extras(tier):
    """Long-mantissa factors, description without unit, mixed-case storage words (variable, record, array,
    member), REAL32/REAL64 limits, bit rates other than the 8 CiA ones - code-built and imported."""
    n_main = 24 if tier == "quick" else 96
    for j in range(n_main):
        fac = FACTORS[j % len(FACTORS)]
        lo, hi = REAL_LIMITS[j % len(REAL_LIMITS)]
        word = STORAGE_WORDS[j % len(STORAGE_WORDS)]
        word2 = STORAGE_WORDS[(j * 3 + 1) % len(STORAGE_WORDS)]
        rdt = rc.REAL32 if j % 2 else rc.REAL64
        a = _var(rc.INTEGER16, factor=fac, description=f"scaled by {j}", default={"k": "int", "v": -j})
        b = _var(rdt, low=_real_spec(rdt, lo), high=_real_spec(rdt, hi), default=_real_spec(rdt, 0.5 - j),
                 unit="K" if j % 3 == 0 else None, factor=FACTORS[(j + 5) % len(FACTORS)] if j % 4 == 0 else None)
        kind = "record" if j % 2 else "array"
        members = [_var(rc.UNSIGNED8, sub=0, name="count", access="ro", default={"k": "int", "v": 2}),
                   _var(rc.UNSIGNED16, sub=1, name="m 1", storage=word2, description=f"member {j}",
                        factor=FACTORS[(j + 7) % len(FACTORS)]),
                   _var(rc.UNSIGNED16, sub=2, name="m 2", unit="rpm")]
        objs = [{"kind": "var", "index": 0x2100, "name": "scaled", "sp": 0, "storage": word, "var": a},
                {"kind": "var", "index": 0x6100, "name": "temperature", "sp": 0, "storage": None, "var": b},
                {"kind": kind, "index": 0x1A00 + j, "name": f"{kind} {j}", "sp": 0, "storage": word2 if j % 3 else word,
                 "members": members}]
        for doc in ("eds", "dcf"):
            for route in ("code", "text"):
                com = None
                if doc == "dcf" or route == "code":
                    com = {"node_id": 1 + j if j % 5 else None, "baudrate": OTHER_KBIT[j % len(OTHER_KBIT)],
                           "baud_hex": False}
                yield {"model": _model(objs, doc="dcf" if route == "code" else doc, commissioning=com,
                                       sp=0 if j < 8 else 1000 + j),
                       "route": route, "node_arg": None, "doc": doc, "dest": DESTS[(j + (doc == "dcf")) % 4],
                       "family": "enum/extras", "edit": route == "code" and j % 2 == 0}
    # every bit rate 1..1000 kbit/s that is not one of the 8 CiA rates (quick: a sample)
    rates = OTHER_KBIT if tier == "quick" else [k for k in range(1, 1001) if k not in em.STD_BAUD]
    for n, k in enumerate(rates):
        v = _var(rc.UNSIGNED8, default={"k": "int", "v": n % 256})
        o = {"kind": "var", "index": 0x2000, "name": "u", "sp": 0, "storage": None, "var": v}
        com = {"node_id": 1 + n % 127 if n % 3 else None, "baudrate": k, "baud_hex": False}
        yield {"model": _model([o], commissioning=com), "route": "text" if n % 2 else "code", "node_arg": None,
               "doc": "dcf", "dest": DESTS[n % 4], "family": "enum/extras"}


# ---- histories ---------------------------------------------------------------------------
def _hist_base(j=0):
    """A dictionary with objects in all three object lists of the document (mandatory, optional,
    manufacturer / profile): variables, a record, an array."""
    ident = [_var(rc.UNSIGNED8, sub=0, name="count", access="ro", default={"k": "int", "v": 3}),
             _var(rc.UNSIGNED32, sub=1, name="Vendor-ID", access="ro", default={"k": "int", "v": 0x1234 + j}),
             _var(rc.UNSIGNED32, sub=2, name="Product code", access="ro", default={"k": "int", "v": 7}),
             _var(rc.UNSIGNED32, sub=3, name="Revision = 2", access="ro")]
    sp = [_var(rc.UNSIGNED8, sub=0, name="count", access="ro", default={"k": "int", "v": 2}),
          _var(rc.INTEGER40, sub=1, name="set point 1", default={"k": "int", "v": -(1 << 39)}),
          _var(rc.INTEGER40, sub=2, name="set point 2", default={"k": "int", "v": (1 << 39) - 1},
               value={"k": "int", "v": -1 - j})]

    def var(index, name, dt, default, **kw):
        return {"kind": "var", "index": index, "name": name, "sp": 0, "storage": None,
                "var": _var(dt, default={"k": "int", "v": default}, **kw)}
    return [var(0x1000, "Device type", rc.UNSIGNED32, 0x191),
            var(0x1001, "Error register", rc.UNSIGNED8, 0),
            var(0x1FFF, "Heartbeat time", rc.UNSIGNED16, 0, value={"k": "int", "v": 500}),
            {"kind": "record", "index": 0x1018, "name": "Identity", "sp": 0, "storage": None, "members": ident},
            var(0x2000, "Valve % open", rc.INTEGER8, -128, value={"k": "int", "v": 17}),
            var(0x2001, "Obsolete option", rc.UNSIGNED8, 1),
            {"kind": "array", "index": 0x5FFF, "name": "Set points", "sp": 0, "storage": "Ram", "members": sp},
            var(0x9FFF, "Target = velocity", rc.INTEGER32, 0, value={"k": "int", "v": -20}, low={"k": "int", "v": -500},
                high={"k": "int", "v": 500})]


def _hist_donor():
    m = [_var(rc.UNSIGNED8, sub=0, name="count", access="ro", default={"k": "int", "v": 1}),
         _var(rc.INTEGER24, sub=1, name="gain", default={"k": "int", "v": -(1 << 23)})]
    return [{"kind": "var", "index": 0x2001, "name": "New option", "sp": 0, "storage": None,
             "var": _var(rc.INTEGER16, default={"k": "int", "v": -2}, value={"k": "int", "v": 3})},
            {"kind": "record", "index": 0x1005, "name": "Controller", "sp": 0, "storage": "ROM", "members": m},
            {"kind": "var", "index": 0x1000, "name": "Device type", "sp": 0, "storage": None,
             "var": _var(rc.UNSIGNED32, default={"k": "int", "v": 0x20192})}]


HIST_ALPHABET = [
    {"op": "export"},
    {"op": "del", "sel": 0, "how": "del"},                     # first object (mandatory list)
    {"op": "del", "sel": 5, "how": "del"},                     # an object in the middle (manufacturer list)
    {"op": "del", "sel": -1, "how": "pop"},                    # last object
    {"op": "del", "sel": 3, "how": "name"},                    # by name (optional list)
    {"op": "add", "sel": 0},                                   # at an index that may just have been freed
    {"op": "add", "sel": 1},                                   # a record at a new index
    {"op": "add", "sel": 2},
    {"op": "restore"},
    {"op": "delmember", "sel": 0, "sel2": 1},
    {"op": "addmember", "sel": 1, "sel2": 0, "dt": rc.INTEGER16},
    {"op": "edit"},
]
_TO = ("stream", "path", "stdout")


def enum_histories(tier):
    """Every sequence of 2 (thorough: and 3, a sample of 4) operations of HIST_ALPHABET on one dictionary that
    has been exported once already; eds/dcf, code-built / imported, the three destination kinds by turns."""
    import itertools
    n = 0
    for length in (2, 3, 4):
        for seq in itertools.product(range(len(HIST_ALPHABET)), repeat=length):
            n += 1
            if length == 3 and tier == "quick" and n % 24:
                continue
            if length == 4 and n % (397 if tier == "quick" else 11):
                continue
            if all(HIST_ALPHABET[k]["op"] == "export" for k in seq):
                continue
            for doc in ("eds", "dcf"):
                route = "text" if (n + (doc == "dcf")) % 3 == 0 else "code"
                hist = [dict(HIST_ALPHABET[k], to=_TO[(n + i) % 3],
                             doc=("dcf" if doc == "eds" else "eds") if (n + i) % 5 == 0 else None)
                        for i, k in enumerate(seq)]
                com = {"node_id": 1 + n % 127, "baudrate": em.STD_BAUD[n % 8], "baud_hex": False}
                yield {"model": _model(_hist_base(n % 50), doc="dcf", commissioning=com), "route": route,
                       "node_arg": None, "doc": doc, "dest": DESTS[n % 4], "family": "enum/history",
                       "history": hist, "donor": _hist_donor()}


_OP = st.one_of(
    st.just({"op": "export"}),
    st.builds(lambda s, how: {"op": "del", "sel": s, "how": how}, _SEL, st.sampled_from(["del", "pop", "name"])),
    st.builds(lambda s, how: {"op": "del", "sel": s, "how": how}, _SEL, st.sampled_from(["del", "pop", "name"])),
    st.builds(lambda s: {"op": "add", "sel": s}, _SEL),
    st.just({"op": "restore"}),
    st.builds(lambda s, t: {"op": "delmember", "sel": s, "sel2": t}, _SEL, _SEL),
    st.builds(lambda s, t, dt: {"op": "addmember", "sel": s, "sel2": t, "dt": dt}, _SEL, _SEL,
              st.sampled_from(sorted(rc.INTEGERS))),
    st.just({"op": "edit"}),
)
_OP_AT = st.builds(lambda h, to, doc: dict(h, to=to, doc=doc), _OP, st.sampled_from(_TO),
                   st.sampled_from([None, None, None, "eds", "dcf"]))
_HISTORY = st.lists(_OP_AT, min_size=1, max_size=6)


@st.composite
def cases(draw):
    flags = draw(st.integers(0, 0xFFF))
    route = "text" if flags % 5 < 2 else "code"                   # 40 % text, 60 % code
    if route == "code":
        model = draw(em.models(doc="dcf", for_export=True, allow_rel=False, max_objects=4))
        node_arg = None
    else:
        model = draw(em.models(for_export=True, allow_rel=True, max_objects=4))
        node_arg = draw(st.one_of(st.none(), st.integers(1, 127)))
    if (flags >> 8) & 0xF == 0xF and model["comments"]:
        model["comments"] = model["comments"] + [""]               # G1 (reported), excluded + counted
    apply_extras(model, draw(_EXTRAS))
    case = {"model": model, "route": route, "node_arg": node_arg,
            "doc": "dcf" if (flags >> 3) & 1 else "eds",
            "dest": DESTS[(flags >> 4) & 3], "family": "hyp", "edit": route == "code" and bool((flags >> 6) & 1)}
    if (flags >> 7) & 1 == 0 and (flags >> 6) & 1 == 0:            # 25 %: the dictionary is used further
        case["history"] = draw(_HISTORY)
        if any(h["op"] == "add" for h in case["history"]):
            case["donor"] = draw(em.models(doc="dcf", for_export=True, allow_rel=False, max_objects=2))["objects"]
    return case


def search(ctx):
    ctx.enumerate(enum_cases(ctx.tier),
                  "boundary values of every integer type as default/parameter value/limits x eds/dcf; every "
                  "sub-index 1..0xFE in records and arrays; node ids 1..127 x bit rates")
    ctx.enumerate(enum_extras(ctx.tier),
                  "long-mantissa factors, description without unit, mixed-case storage words, REAL32/REAL64 "
                  "limits, bit rates other than the 8 CiA ones x eds/dcf x code/text")
    hist_label = ("sequences of 2 (thorough: 2..3 and a sample of 4) operations {export, remove an object by "
                  "index / name / pop, add an object at a freed or new index, put the removed object back, remove / "
                  "add a member, change all values} on an exported dictionary, export + import after every step")
    if ctx.tier == "thorough":                 # ~470 cases per shard; the drawn cases then use the rest of the budget
        ctx.enumerate(enum_histories(ctx.tier), hist_label)
    total, chunk = (16000, 500) if ctx.tier == "thorough" else (1100, 275)
    hyp_chunks(ctx, cases(), total, chunk)
    if ctx.tier != "thorough":
        # quick: last, so that on a heavily loaded machine the cooperative budget cuts this family and not the
        # drawn cases (a quarter of which carry a history as well)
        ctx.enumerate(enum_histories(ctx.tier), hist_label)
    if _feature_counts and ctx.shard == 0:
        ctx.notes.append("shard 0 feature counts (cases containing the feature): " +
                         ", ".join(f"{k}={v}" for k, v in sorted(_feature_counts.items())))
