"""C01 - SDO client transfers exactly the caller's bytes in conformant frames.

SUT: RemoteNode.sdo (SdoClient, ReadableStream, WritableStream, open, upload,
download, SdoVariable.data/.open).  Peer: strict RefSdoServer on an inline hub.
"""
import copy
import math

from hypothesis import strategies as st

from harness import refcodec as rc
from harness.core import Discrepancy, Outcome
from harness.odutil import build_od
from harness.refsdo import RefSdoServer
from harness.simbus import Hub

PROPERTY = "C01"
LEVEL = "exploration"
RULE = ("case = dictionary of the client + history of 1..6 transfers on one client/server pair; each "
        "transfer = (address, payload, route): download(force_segment) | open('wb'/'w', size declared or "
        "not, buffering in {0,2..16,1024,8192}, split of the payload into write() calls) | upload via "
        "upload()/open('rb'/'r')/SdoVariable.data with read(), read(k) loops, readline, and the server "
        "answering in one of the 4 CiA 301 upload styles, optionally with fewer than 7 bytes per segment "
        "and/or with the last-segment flag in a segment of its own that carries no data (n=7, c=1). "
        "Addresses: declared exactly (VAR, record member, array member, array member through the template "
        "of member 1), index absent from the dictionary, and index present but sub-index not declared "
        "(record + undeclared sub, VAR object + sub > 0). Every length 0..64 is enumerated for every "
        "route, for every address class, for the empty-last-segment style, for string-typed entries "
        "(VISIBLE/UNICODE/OCTET_STRING as VAR, record member, array element) with all-zero / zero-tailed / "
        "zero-embedded payloads through upload(), .data (both directions), download(), .open; every "
        "fixed-size type (VAR, record member, array element) x lengths 0..12 (thorough: 0..64); fixed "
        "10-transfer histories over neighbouring sub-indices of one index in both orders. Hypothesis adds "
        "random histories with boundary lengths (7k+-1, 889+-1, 1023..1025) and a log-uniform tail, one "
        "stream with the original classes and one (salt 1) with the added address/style/content classes. "
        "Reconfigured histories: between two transfers the client's dictionary is edited through its public "
        "API (data_type of a VAR / listed member assigned; add_object of a new or replacing object; "
        "add_member of a new or replacing member; del od[index] / del record[sub]) and the next transfers "
        "are judged by the declaration in force when they are made: enumerated upload - edit - upload "
        "(also with other transfers in between, and there-and-back) for every pair of declarations that "
        "cut an upload to a different number of bytes (quick: one type per width + not declared + string + "
        "DOMAIN; thorough: all types) x VAR / record member / array member 1 / array member through the "
        "template x every way of making that change x upload()/.data; a third Hypothesis stream (salt 100) "
        "draws 3..9 transfers and edits over <= 3 indices x <= 4 sub-indices so that addresses repeat. "
        "Oracle: strict CiA 301 reference server validates every request frame, holds the bytes and must "
        "be idle again when the call returns; a download commits exactly the payload once; an upload "
        "returns exactly the held bytes - for an entry declared as BOOLEAN/number: the declared number of "
        "leading bytes through upload()/.data, either that or all bytes through open() (the statement "
        "does not say where the cut happens); for (VAR index, sub > 0): all bytes or the VAR's declared "
        "number of leading bytes (both readings of 'declared' accepted); never an exception. "
        "Non-trivial = at least one segment frame or a length in {0,1,4,5,7,8}, or a transfer at an index "
        "whose dictionary entry an earlier edit of the history touched; "
        "distinct = canonical JSON of the case.")
ASSUMPTIONS = [
    "raw (buffering=0) streams move at most one segment per call, as documented; the harness honours "
    "the returned count",
    "text mode uses ASCII without carriage returns (TextIOWrapper translates them); NUL is a character",
    "client dictionary entries are numeric, BOOLEAN, string/DOMAIN or absent (types without codec are out of domain)",
    "a segment with n=7 and c=1 after the announced number of bytes is a legal CiA 301 upload response "
    "(the field n may be 7; the size indication counts data bytes, not segments)",
    "every read through the file-like interface goes on until the stream reports end of data (b''/''), "
    "so a conformant client has fetched the segment that carries c=1 when the call sequence ends",
    "arrays in the client dictionary declare sub 0 and member 1; records declare sub 0",
    "'the object dictionary declares' refers to the client's dictionary as it is when the transfer is "
    "made; it is only edited between transfers, from the calling thread, through ObjectDictionary."
    "add_object / __delitem__, ODRecord/ODArray.add_member, ODRecord.__delitem__ and the data_type attribute",
    "time-outs, late or duplicated responses are not generated here (an undisturbed conformant server "
    "answers every request once, in time); what follows a disturbed transfer is C07's subject",
]
BUDGET = {"quick": 150, "thorough": 400}

NODE = 2
FIXED = [rc.BOOLEAN] + sorted(rc.NUMERIC)


def _payload(n, salt=0):
    # deterministic; mostly non-zero bytes so that 'padding is zero' is a real check, but for some
    # salts the payload has zero runs and ends in zero bytes (a value is not a C string)
    if salt % 5 == 2:
        return bytes(0 if (i % 9 in (3, 4, 5) or i >= n - 2) else ((i * 37 + salt * 11 + 1) % 255) + 1
                     for i in range(n))
    return bytes(((i * 37 + salt * 11 + 1) % 255) + 1 for i in range(n))


class Server(RefSdoServer):
    """RefSdoServer plus one more upload response style that CiA 301 allows: all data bytes go out
    in segments with c=0 and the last-segment flag travels in a segment of its own that carries no
    data (n=7, c=1).  (The parent does that only for an empty value.)  The request validation stays
    the parent's: its response is rewritten and its transfer state restored."""
    ul_empty_last = False

    def _seg_upload(self, d):
        if not (self.ul_empty_last and self.state == self.UL_SEG):
            return super()._seg_upload(d)
        mux, data, toggle = self.mux, self.data, self.toggle
        resp = super()._seg_upload(d)
        if self.state == self.IDLE and len(resp) == 1:
            cmd = resp[0][0]
            if cmd >> 5 == 0 and cmd & 1 and (cmd >> 1) & 7 != 7:
                # a segment with data that the parent flagged as last: hold the flag back
                resp = [bytes([cmd & 0xFE]) + resp[0][1:]]
                self.state = self.UL_SEG
                self.mux, self.data, self.pos, self.toggle = mux, data, len(data), toggle ^ 1
        return resp


class Rig:
    def __init__(self, od_spec):
        import canopen
        self.hub = Hub()
        self.server = Server(0x600 + NODE, 0x580 + NODE)
        self.server.attach(self.hub)
        self.net, self.port = self.hub.attach("client")
        od = build_od(od_spec)
        self.node = canopen.RemoteNode(NODE, od)
        self.net.add_node(self.node)
        self.client = self.node.sdo
        self.client.RESPONSE_TIMEOUT = 0.05


def _raw_write_all(fp, data, chunks):
    """Documented raw contract: write() returns how many bytes it took (possibly
    0/None when it wants more at once)."""
    pos = 0
    ci = 0
    want = chunks[0] if chunks else len(data)
    guard = 0
    while pos < len(data):
        guard += 1
        if guard > 10 * len(data) + 100:
            raise RuntimeError("raw write makes no progress")
        end = min(len(data), pos + want)
        n = fp.write(data[pos:end])
        if not n:
            if end == len(data):
                raise RuntimeError("raw write refused the complete remaining payload")
            want += 1
            continue
        pos += n
        ci += 1
        want = chunks[ci] if ci < len(chunks) else len(data)


def do_download(rig, x, D, tag):
    c = rig.client
    data = bytes(x["data"])
    index, sub = x["index"], x["sub"]
    n_commits = len(rig.server.commits)
    route = x["route"]
    if route == "download":
        c.download(index, sub, data, force_segment=x.get("force", False))
    elif route == "var_data":
        var = c[index] if x.get("toplevel") else c[index][sub]
        var.data = data
    else:
        size = len(data) if x["size_decl"] else None
        buffering = x["buffering"]
        if x.get("text"):
            text = data.decode("ascii")
            fp = c.open(index, sub, "w", buffering=buffering, size=size,
                        force_segment=x.get("force", False))
            with fp:
                pos = 0
                for k in x["chunks"]:
                    fp.write(text[pos:pos + k])
                    pos += k
                if pos < len(text):
                    fp.write(text[pos:])
        elif x.get("var_open"):
            var = c[index] if x.get("toplevel") else c[index][sub]
            with var.open("wb", buffering=buffering, size=size) as fp:
                if buffering == 0:
                    _raw_write_all(fp, data, x["chunks"])
                else:
                    _buffered_write(fp, data, x["chunks"])
                if x.get("close_twice"):
                    fp.close()          # an explicit close() inside the with block: the second close is a no-op
        else:
            fp = c.open(index, sub, "wb", buffering=buffering, size=size,
                        force_segment=x.get("force", False))
            with fp:
                if buffering == 0:
                    _raw_write_all(fp, data, x["chunks"])
                else:
                    _buffered_write(fp, data, x["chunks"])
                if x.get("close_twice"):
                    fp.close()
    new = rig.server.commits[n_commits:]
    if len(new) != 1:
        D.append(Discrepancy(f"C01/download/{route}/commit-count",
                             f"{tag}: {len(new)} commits at the server for one download of {len(data)} bytes"))
    elif new[0] != (index, sub, data):
        D.append(Discrepancy(f"C01/download/{route}/bytes",
                             f"{tag}: server committed {new[0][0]:04x}:{new[0][1]:02x} "
                             f"{new[0][2][:40].hex()}({len(new[0][2])}B) want {index:04x}:{sub:02x} "
                             f"{data[:40].hex()}({len(data)}B)"))


def _buffered_write(fp, data, chunks):
    pos = 0
    for k in chunks:
        fp.write(data[pos:pos + k])
        pos += k
    if pos < len(data):
        fp.write(data[pos:])


def acceptable(data, route, decl, loose):
    """What the property lets an upload of `data` return.  decl = data type the client dictionary
    declares for exactly this (index, sub) (None = not declared); loose = data type of a VAR object
    at this index when sub != 0 (the dictionary declares only sub 0 of it)."""
    if decl is not None and decl in FIXED:
        cut = data[:rc.width(decl) // 8]
        if route in ("upload", "var_data"):
            return [cut]
        # through the file-like interface the statement does not say whether the stream already
        # delivers the declared number of leading bytes or all bytes: both are accepted
        return [data, cut]
    if decl is None and loose is not None and loose in FIXED:
        # (index of a VAR object, sub != 0): 'declared' only if the sub-index is taken as not
        # applicable to a VAR (which is what get_variable documents); both readings are accepted
        return [data, data[:rc.width(loose) // 8]]
    return [data]


def do_upload(rig, x, D, tag, decl, loose=None):
    c = rig.client
    data = bytes(x["data"])
    index, sub = x["index"], x["sub"]
    rig.server.store[(index, sub)] = data
    style = x["style"]
    rig.server.upload_style = lambda i, s, d: style
    rig.server.ul_chunks = x.get("ul_chunks")       # a server that fills its segments with fewer than 7 bytes
    rig.server.ul_empty_last = bool(x.get("empty_last"))   # ... and sends c=1 in a segment without data
    route = x["route"]
    wants = acceptable(data, route, decl, loose)
    if route in ("upload", "var_data"):
        if route == "upload":
            got = c.upload(index, sub)
        else:
            var = c[index] if x.get("toplevel") else c[index][sub]
            got = var.data
    else:
        buffering = x["buffering"]
        if x.get("text"):
            wants = [w.decode("ascii") for w in wants]
            with c.open(index, sub, "r", buffering=buffering) as fp:
                if x.get("lines"):
                    got = "".join(list(fp))
                else:
                    got = _read_loop(fp, x.get("reads"), "", D, tag)
        else:
            if x.get("var_open"):
                var = c[index] if x.get("toplevel") else c[index][sub]
                fp = var.open("rb", buffering=buffering)
            else:
                fp = c.open(index, sub, "rb", buffering=buffering)
            with fp:
                if buffering == 0:
                    announced = fp.size
                    served = rig.server.uploads_served[-1][2]
                    exp_size = len(data) if served in ("seg_size", "exp_size") else None
                    if announced != exp_size:
                        D.append(Discrepancy("C01/upload/size-attr",
                                             f"{tag}: stream.size = {announced}, server style {served} "
                                             f"announced {exp_size}"))
                got = _read_loop(fp, x.get("reads"), b"", D, tag)
    if isinstance(got, (bytes, bytearray)):
        got = bytes(got)
    if got not in wants:
        D.append(Discrepancy(f"C01/upload/{route}/bytes",
                             f"{tag}: got {_show(got)} want {' or '.join(_show(w) for w in wants)} "
                             f"(style {style}{', empty last segment' if x.get('empty_last') else ''}, "
                             f"declared type {decl}{'' if loose is None else f', VAR at this index {loose}'})"))


def _show(v):
    if isinstance(v, bytes):
        return f"{v[:40].hex()}({len(v)}B)"
    return f"{v[:40]!r}({len(v)} chars)"


def _read_loop(fp, reads, empty, D, tag):
    if not reads:
        return fp.read()
    out = empty
    i = 0
    while True:
        k = reads[i % len(reads)]
        i += 1
        if k is not None and k < 0 and isinstance(empty, str):
            chunk = fp.read(-k)                                 # text streams have no readinto()
        elif k is not None and k < 0:
            # readinto() with a buffer of -k bytes (on a raw stream the caller's buffer may be
            # smaller than one segment)
            buf = bytearray(-k)
            n = fp.readinto(buf)
            chunk = bytes(buf[:n or 0])
        else:
            chunk = fp.read() if k is None else fp.read(k)      # None = "the rest"
            if k is None:
                # io contract: read() without a size returns everything up to the end of the data
                more = fp.read()
                if more:
                    D.append(Discrepancy("C01/upload/read-all-stops-early",
                                         f"{tag}: after reads {reads[:i]} read() returned {_show(chunk)} although "
                                         f"{_show(more)} was still to come"))
                return out + chunk + more
        if not chunk:
            return out
        out += chunk
        if i > 200000:
            raise RuntimeError("read loop does not terminate")


# ---- the client's dictionary changes between two transfers (public dictionary API) ------------
def _decl_maps(spec):
    """(index, sub) -> declared data type, and index -> data type of a VAR object, for a dictionary spec."""
    decl = {}
    vardt = {}
    for o in spec:
        if o["kind"] == "var":
            decl[(o["index"], 0)] = o["dt"]
            vardt[o["index"]] = o["dt"]
        else:
            for m in o["members"]:
                decl[(o["index"], m["sub"])] = m["dt"]
            if o["kind"] == "array":
                # members 2..255 that are not listed are described by member 1
                tmpl = [m for m in o["members"] if m["sub"] == 1][0]
                for sub in range(1, 256):
                    decl.setdefault((o["index"], sub), tmpl["dt"])
    return decl, vardt


def apply_edit(spec, e):
    """Reference model of one dictionary edit: returns the new spec (the old one is left alone).
    edit = retype (data_type of a VAR / of a listed member assigned) | add (add_object: a new object, or
    one that replaces the object at that index) | add_member (record/array add_member: new or replacing)
    | del (del od[index] / del record[sub])."""
    spec = copy.deepcopy(spec)
    kind, index = e["edit"], e["index"]
    if kind == "add":
        return [o for o in spec if o["index"] != index] + [copy.deepcopy(e["obj"])]
    objs = [o for o in spec if o["index"] == index]
    if len(objs) != 1:
        raise RuntimeError(f"dictionary edit {e} addresses an object that is not in the dictionary")
    o = objs[0]
    if kind == "del" and e.get("sub") is None:
        return [p for p in spec if p["index"] != index]
    if kind == "retype" and o["kind"] == "var":
        o["dt"] = e["dt"]
        return spec
    if o["kind"] == "var":
        raise RuntimeError(f"dictionary edit {e} addresses a member of a VAR object")
    if kind == "add_member":
        o["members"] = sorted([m for m in o["members"] if m["sub"] != e["member"]["sub"]]
                              + [copy.deepcopy(e["member"])], key=lambda m: m["sub"])
        return spec
    hit = [m for m in o["members"] if m["sub"] == e["sub"]]
    if len(hit) != 1:
        raise RuntimeError(f"dictionary edit {e} addresses a member that is not listed")
    if kind == "retype":
        hit[0]["dt"] = e["dt"]
    elif kind == "del" and o["kind"] == "record":
        o["members"] = [m for m in o["members"] if m["sub"] != e["sub"]]
    else:
        raise RuntimeError(f"unknown dictionary edit {e}")
    return spec


def _edit_real(od, e):
    """The same edit on the client's ObjectDictionary, through its public API only."""
    from harness.odutil import build_var
    kind, index = e["edit"], e["index"]
    if kind == "add":
        od.add_object(build_od([e["obj"]])[index])
    elif kind == "del":
        if e.get("sub") is None:
            del od[index]
        else:
            del od[index][e["sub"]]
    elif kind == "retype":
        obj = od[index]
        if hasattr(obj, "subindices"):
            obj = obj.subindices[e["sub"]]          # the listed member itself (an array makes copies for the rest)
        obj.data_type = e["dt"]
    elif kind == "add_member":
        od[index].add_member(build_var(e["member"], index, e["member"]["sub"]))
    else:
        raise RuntimeError(f"unknown dictionary edit {e}")


def run_case(case) -> Outcome:
    rig = Rig(case["od"])
    spec = case["od"]
    decl, vardt = _decl_maps(spec)
    edited = set()              # indices whose declaration an edit has touched so far
    D = []
    nontrivial = False
    klass = []
    for k, x in enumerate(case["xfers"]):
        if x["op"] == "od":
            # the dictionary changes between two transfers; from here on the new declaration counts
            spec = apply_edit(spec, x)
            _edit_real(rig.client.od, x)
            decl, vardt = _decl_maps(spec)
            edited.add(x["index"])
            klass.append("od/" + x["edit"])
            continue
        tag = f"transfer {k} ({x['op']}/{x['route']} {x['index']:04x}:{x['sub']:02x} len {len(x['data'])})"
        nreq = len(rig.server.requests)
        nerr = len(rig.server.errors)
        try:
            if x["op"] == "dl":
                do_download(rig, x, D, tag)
            else:
                do_upload(rig, x, D, tag, decl.get((x["index"], x["sub"])),
                          vardt.get(x["index"]) if x["sub"] else None)
        except Exception as e:
            D.append(Discrepancy(f"C01/{x['op']}/{x['route']}/raises",
                                 f"{tag}: {type(e).__name__}: {e}"))
        for pe in rig.server.errors[nerr:]:
            D.append(Discrepancy(f"C01/frame/{pe.kind}", f"{tag}: illegal request frame: {pe}"))
        if rig.server.client_aborts:
            D.append(Discrepancy("C01/frame/abort", f"{tag}: client sent abort "
                                 f"{rig.server.client_aborts[-1]:08x} in an undisturbed transfer"))
            rig.server.client_aborts.clear()
        if rig.server.state != rig.server.IDLE:
            D.append(Discrepancy("C01/frame/unfinished", f"{tag}: server still mid-transfer after the "
                                 f"call returned (state {rig.server.state})"))
            rig.server._reset()
        nframes = len(rig.server.requests) - nreq
        ln = len(x["data"])
        if nframes > 1 or ln in (0, 1, 4, 5, 7, 8) or x["index"] in edited:
            nontrivial = True
        klass.append(f"{x['op']}/{x['route']}/{_lenclass(ln)}"
                     + ("/b%s" % _bufclass(x["buffering"]) if "buffering" in x else "")
                     + ("/" + x["style"] if x["op"] == "ul" else "")
                     + ("/emptylast" if x.get("empty_last") else "")
                     + _addrclass(spec, x["index"], x["sub"])
                     + ("/sized" if x.get("size_decl") else ""))
        if D:
            break
    nedits = sum(1 for x in case["xfers"] if x["op"] == "od")
    if nedits:
        kl = (f"reconf/{min(len(case['xfers']) - nedits, 6)}xfers/"
              + "+".join(sorted({x["edit"] for x in case["xfers"] if x["op"] == "od"})))
    else:
        kl = klass[0] if len(klass) == 1 else f"history{len(case['xfers'])}"
    return Outcome(nontrivial, kl, D)


def _addrclass(od, index, sub):
    for o in od:
        if o["index"] == index:
            if o["kind"] == "var":
                return "" if sub == 0 else "/var-sub>0"
            if any(m["sub"] == sub for m in o["members"]):
                return ""
            return "/array-template" if o["kind"] == "array" and sub else "/undeclared-sub"
    return ""


def _lenclass(n):
    if n <= 4:
        return f"len{n}"
    if n <= 7:
        return "len5-7"
    if n <= 14:
        return "len8-14"
    if n <= 64:
        return "len15-64"
    if n <= 1024:
        return "len65-1024"
    return "len>1024"


def _bufclass(b):
    if b in (0, 1):
        return str(b)
    if b < 7:
        return "2-6"
    if b <= 16:
        return "7-16"
    return "big"


# ---- generation --------------------------------------------------------------
STYLES = ["seg_size", "seg_nosize", "exp_size", "exp_nosize"]
BUFFERINGS = [0, 2, 3, 4, 5, 6, 7, 8, 9, 13, 16, 1024, 8192]


def styles_for(n):
    s = ["seg_size", "seg_nosize"]
    if 1 <= n <= 4:
        s.append("exp_size")
    if n == 4:
        s.append("exp_nosize")
    return s


def ascii_payload(n, salt=0):
    alphabet = b"abcdefghijklmnopqrstuvwxyz0123456789 \n\t.,;:-_ABCDEFXYZ"
    return bytes(alphabet[(i * 7 + salt * 3 + (i // 11)) % len(alphabet)] for i in range(n))


def _zpayload(n, kind, salt=0):
    """Payloads in which zero bytes matter (a value is not a C string): kind 0 = all zero,
    1 = non-zero bytes followed by 1..n zero bytes, 2 = zero bytes first and embedded, last byte
    non-zero, 3 = embedded zero run and one zero byte at the end."""
    if kind == 0:
        return bytes(n)
    body = _payload(n, salt)
    if kind == 1:
        z = 1 + salt % n if n else 0
        return body[:n - z] + bytes(z)
    if kind == 2:
        return bytes(0 if (i % 3 == 0 and i != n - 1) else body[i] for i in range(n))
    return bytes(0 if (i == n - 1 or n // 3 <= i < n // 3 + 2) else body[i] for i in range(n))


STRING_ENTRIES = [(0x2004, 0, True), (0x2007, 0, True), (0x2008, 0, True), (0x2005, 2, False),
                  (0x2005, 3, False), (0x2005, 4, False), (0x2009, 1, False), (0x2009, 0x42, False)]


def typed_od():
    """Every fixed-size type as a VAR object, as a record member and as the element type of an array."""
    od = [{"kind": "var", "index": 0x2100 + k, "name": f"v{k}", "dt": dt} for k, dt in enumerate(FIXED)]
    od.append({"kind": "record", "index": 0x2200, "name": "rec", "members":
               [{"sub": 0, "name": "n", "dt": rc.UNSIGNED8}] +
               [{"sub": k + 1, "name": f"m{k}", "dt": dt} for k, dt in enumerate(FIXED)]})
    od += [{"kind": "array", "index": 0x2300 + k, "name": f"a{k}", "members": [
        {"sub": 0, "name": "n", "dt": rc.UNSIGNED8}, {"sub": 1, "name": "el", "dt": dt}]}
        for k, dt in enumerate(FIXED)]
    return od


def enum_cases(full=False):
    od = [{"kind": "var", "index": 0x2000, "name": "dom", "dt": rc.DOMAIN},
          {"kind": "var", "index": 0x2001, "name": "u16", "dt": rc.UNSIGNED16},
          {"kind": "var", "index": 0x2002, "name": "i24", "dt": rc.INTEGER24},
          {"kind": "var", "index": 0x2003, "name": "u64", "dt": rc.UNSIGNED64},
          {"kind": "var", "index": 0x2004, "name": "str", "dt": rc.VISIBLE_STRING},
          {"kind": "record", "index": 0x2005, "name": "rec", "members": [
              {"sub": 0, "name": "n", "dt": rc.UNSIGNED8},
              {"sub": 1, "name": "a", "dt": rc.UNSIGNED32},
              {"sub": 2, "name": "b", "dt": rc.OCTET_STRING},
              {"sub": 3, "name": "c", "dt": rc.VISIBLE_STRING},
              {"sub": 4, "name": "d", "dt": rc.UNICODE_STRING}]},
          {"kind": "array", "index": 0x2006, "name": "arr", "members": [
              {"sub": 0, "name": "n", "dt": rc.UNSIGNED8},
              {"sub": 1, "name": "el", "dt": rc.UNSIGNED16}]},
          {"kind": "var", "index": 0x2007, "name": "ustr", "dt": rc.UNICODE_STRING},
          {"kind": "var", "index": 0x2008, "name": "ostr", "dt": rc.OCTET_STRING},
          {"kind": "array", "index": 0x2009, "name": "sarr", "members": [
              {"sub": 0, "name": "n", "dt": rc.UNSIGNED8},
              {"sub": 1, "name": "el", "dt": rc.VISIBLE_STRING}]}]
    tod = typed_od()
    rot = 0
    for n in range(0, 65):
        data = _payload(n, n)
        chunkings = [[n] if n else [], [1] * n, [3] * (n // 3), [7] * (n // 7), [8] * (n // 8),
                     [max(1, n - 1)] if n else []]
        # downloads
        for force in (False, True):
            yield {"od": od, "xfers": [{"op": "dl", "index": 0x1F50 + n, "sub": n % 256, "data": data,
                                        "route": "download", "force": force}]}
        yield {"od": od, "xfers": [{"op": "dl", "index": 0x2000, "sub": 0, "data": data,
                                    "route": "var_data", "toplevel": True}]}
        yield {"od": od, "xfers": [{"op": "dl", "index": 0x2005, "sub": 2, "data": data,
                                    "route": "var_data", "toplevel": False}]}
        i = 0
        uniq = []
        for ch in chunkings + [[2, 1, 1], [1, 2, 1], [1, 1, 2], [2, 2], [1, 3], [3, 1], [4, 4, 4], [6, 1, 7]]:
            if ch not in uniq and sum(ch) <= n:
                uniq.append(ch)
        for buffering in BUFFERINGS:
            for size_decl in (True, False):
                # every chunking for the short payloads, a rotating one above
                for ch in (uniq if n <= 9 else [uniq[i % len(uniq)], uniq[(i // 2 + 1) % len(uniq)]]):
                    i += 1
                    yield {"od": od, "xfers": [{"op": "dl", "index": 0xFFFF - n, "sub": 255 - n,
                                                "data": data, "route": "open", "size_decl": size_decl,
                                                "buffering": buffering, "force": (i % 5 == 0),
                                                "chunks": ch, "close_twice": (i % 3 == 0)}]}
        yield {"od": od, "xfers": [{"op": "dl", "index": 0x2000, "sub": 0, "data": data, "route": "open",
                                    "var_open": True, "toplevel": True, "size_decl": True,
                                    "buffering": 1024, "chunks": [n] if n else []}]}
        text = ascii_payload(n, n)
        for buffering in (1, 5, 1024):
            yield {"od": od, "xfers": [{"op": "dl", "index": 0x2004, "sub": 0, "data": text, "route": "open",
                                        "text": True, "size_decl": (buffering != 5), "buffering": buffering,
                                        "chunks": chunkings[(n + buffering) % len(chunkings)]}]}
        # uploads
        for style in styles_for(n):
            for idx, sub in ((0x2000, 0), (0x2001, 0), (0x2002, 0), (0x2003, 0), (0x2005, 1), (0x3000 + n, n),
                             (0x2006, 1), (0x2006, 2 + n), (0x2006, 255)):
                yield {"od": od, "xfers": [{"op": "ul", "index": idx, "sub": sub, "data": data,
                                            "style": style, "route": "upload"}]}
            yield {"od": od, "xfers": [{"op": "ul", "index": 0x2002, "sub": 0, "data": data,
                                        "style": style, "route": "var_data", "toplevel": True}]}
            if style.startswith("seg") and n > 1:
                # a conformant server may put fewer than 7 bytes into any segment
                for chunks in ([1], [6], [3, 7], [7, 2, 5], [4, 1, 1, 7]):
                    yield {"od": od, "xfers": [{"op": "ul", "index": 0x2000, "sub": 0, "data": data, "style": style,
                                                "route": "upload", "ul_chunks": chunks}]}
                    yield {"od": od, "xfers": [{"op": "ul", "index": 0x2000, "sub": 0, "data": data, "style": style,
                                                "route": "open", "buffering": (0, 3, 1024)[len(chunks) % 3],
                                                "reads": None, "ul_chunks": chunks}]}
            j = 0
            for buffering in BUFFERINGS:
                reads = [None, [1], [3], [7], [8], [64], [2, 5, 11], [1, None], [4, 2, None], [-3, None], [-1, 2, -5],
                         [-2, -9, None]][(j + n) % 12]
                j += 1
                yield {"od": od, "xfers": [{"op": "ul", "index": 0x2000, "sub": 0, "data": data,
                                            "style": style, "route": "open", "buffering": buffering,
                                            "reads": reads}]}
            for buffering in (1, 4, 1024):
                yield {"od": od, "xfers": [{"op": "ul", "index": 0x2004, "sub": 0, "data": text,
                                            "style": style, "route": "open", "text": True,
                                            "buffering": buffering, "lines": (n % 2 == 0),
                                            "reads": [5] if n % 3 == 0 else None}]}

        # --- addresses whose index is in the client dictionary although the sub-index is not declared there:
        # (record, undeclared sub), (VAR object, sub > 0), and sub 0 of an array.  Every route that takes a
        # plain (index, sub).  The server holds / accepts a value at each of them.
        near = [(0x2005, 5 + n), (0x2005, 255), (0x2001, 1 + n), (0x2003, 255 - n), (0x2004, 1 + 2 * n),
                (0x2000, 7), (0x2006, 0), (0x2009, 0)]
        for style in styles_for(n):
            for idx, sub in near:
                yield {"od": od, "xfers": [{"op": "ul", "index": idx, "sub": sub, "data": data,
                                            "style": style, "route": "upload"}]}
        for k, (idx, sub) in enumerate(near):
            rot += 1
            yield {"od": od, "xfers": [{"op": "ul", "index": idx, "sub": sub, "data": data,
                                        "style": styles_for(n)[rot % len(styles_for(n))], "route": "open",
                                        "buffering": BUFFERINGS[rot % len(BUFFERINGS)],
                                        "reads": [None, [7], [3, None], [-4, 9]][rot % 4]}]}
            yield {"od": od, "xfers": [{"op": "dl", "index": idx, "sub": sub, "data": data,
                                        "route": "download", "force": bool(rot % 2)}]}
            yield {"od": od, "xfers": [{"op": "dl", "index": idx, "sub": sub, "data": data, "route": "open",
                                        "size_decl": bool(rot % 3), "buffering": BUFFERINGS[(rot // 2) % len(BUFFERINGS)],
                                        "force": rot % 5 == 0, "chunks": chunkings[rot % len(chunkings)]}]}

        # --- the server sends the last-segment flag in a segment of its own without data (n=7, c=1)
        if n >= 1:
            for style in ("seg_size", "seg_nosize"):
                base = {"op": "ul", "data": data, "style": style, "empty_last": True}
                yield {"od": od, "xfers": [dict(base, index=0x2000, sub=0, route="upload")]}
                yield {"od": od, "xfers": [dict(base, index=0x3000 + n, sub=n, route="upload")]}
                yield {"od": od, "xfers": [dict(base, index=0x2002, sub=0, route="var_data", toplevel=True)]}
                yield {"od": od, "xfers": [dict(base, index=0x2005, sub=2, route="var_data", toplevel=False)]}
                for chunks in ([1], [3, 7], [4, 1, 1, 7]) if n > 1 else ():
                    rot += 1
                    yield {"od": od, "xfers": [dict(base, index=0x2000, sub=0, ul_chunks=chunks,
                                                    **({"route": "upload"} if rot % 2 else
                                                       {"route": "open", "buffering": BUFFERINGS[rot % len(BUFFERINGS)],
                                                        "reads": None}))]}
                all_reads = [None, [1], [3], [7], [8], [64], [2, 5, 11], [1, None], [4, 2, None], [-3, None],
                             [-1, 2, -5], [-2, -9, None]]
                for buffering in (BUFFERINGS if full else (0, 3, 7, 8, 16, 1024)):
                    rot += 1
                    yield {"od": od, "xfers": [dict(base, index=0x2000, sub=0, route="open", buffering=buffering,
                                                    reads=all_reads[rot % 12])]}
                yield {"od": od, "xfers": [dict(base, index=0x2000, sub=0, route="open", var_open=True,
                                                toplevel=True, buffering=(0, 5, 1024)[n % 3], reads=None)]}
                yield {"od": od, "xfers": [dict(base, index=0x2004, sub=0, data=text, route="open", text=True,
                                                buffering=(1, 4, 1024)[n % 3], lines=(n % 2 == 1), reads=None)]}
                # ... and the same client carries on with the next transfer
                yield {"od": od, "xfers": [dict(base, index=0x2000, sub=0, route="upload"),
                                           {"op": "dl", "index": 0x2100, "sub": 0, "data": data, "route": "download",
                                            "force": False},
                                           dict(base, index=0x2001, sub=0, route="upload")]}

        # --- string-typed entries (VAR, record member, array element) through upload() / .data with payloads
        # in which zero bytes matter: the bytes are the value, whatever the declared type
        zp = []
        for kind in range(4):
            z = _zpayload(n, kind, n)
            if z not in zp:
                zp.append(z)
        sty = styles_for(n)
        for idx, sub, top in STRING_ENTRIES:
            for z in zp:
                rot += 1
                for style in (sty if full else [sty[rot % len(sty)]]):
                    yield {"od": od, "xfers": [{"op": "ul", "index": idx, "sub": sub, "data": z,
                                                "style": style, "route": "upload"}]}
                for style in (sty if full else [sty[(rot + 1) % len(sty)]]):
                    yield {"od": od, "xfers": [{"op": "ul", "index": idx, "sub": sub, "data": z, "style": style,
                                                "route": "var_data", "toplevel": top}]}
                yield {"od": od, "xfers": [{"op": "dl", "index": idx, "sub": sub, "data": z,
                                            "route": "var_data", "toplevel": top}]}
            rot += 1
            z = zp[rot % len(zp)]
            yield {"od": od, "xfers": [{"op": "dl", "index": idx, "sub": sub, "data": z, "route": "download",
                                        "force": bool(rot % 2)}]}
            yield {"od": od, "xfers": [{"op": "dl", "index": idx, "sub": sub, "data": z, "route": "open",
                                        "var_open": True, "toplevel": top, "size_decl": bool(rot % 3),
                                        "buffering": BUFFERINGS[rot % len(BUFFERINGS)],
                                        "chunks": chunkings[rot % len(chunkings)]}]}
            yield {"od": od, "xfers": [{"op": "ul", "index": idx, "sub": sub, "data": z,
                                        "style": sty[rot % len(sty)], "route": "open", "var_open": True,
                                        "toplevel": top, "buffering": BUFFERINGS[rot % len(BUFFERINGS)],
                                        "reads": [None, [7], [2, None]][rot % 3]}]}

        # --- one client, several objects one after the other: neighbours under one index that are declared
        # with different types / not declared (whatever the client remembers of one transfer must not
        # leak into the next), both orders, uploads and downloads interleaved
        seq = [(0x2005, 1), (0x2005, 0), (0x2005, 2), (0x2005, 9), (0x2001, 0), (0x2001, 3), (0x2006, 0),
               (0x2006, 5), (0x2005, 3), (0x2005, 1)]
        for order in (seq, seq[::-1]):
            rot += 1
            xf = []
            for k, (idx, sub) in enumerate(order):
                if (k + rot) % 4 == 3:
                    xf.append({"op": "dl", "index": idx, "sub": sub, "data": _payload(n, n + k),
                               "route": "download", "force": bool(k % 2)})
                else:
                    xf.append({"op": "ul", "index": idx, "sub": sub, "data": _payload(n, n + k),
                               "style": sty[(k + rot) % len(sty)], "route": "upload",
                               **({"empty_last": True} if n and (k + rot) % 3 == 0 and
                                  sty[(k + rot) % len(sty)].startswith("seg") else {})})
            yield {"od": od, "xfers": xf}

        # --- every fixed-size type x every length around its width: the declared number of leading bytes
        if n <= 12 or full:
            for k, dt in enumerate(FIXED):
                rot += 1
                for style in (sty if (full or n <= 9) else [sty[rot % len(sty)]]):
                    yield {"od": tod, "xfers": [{"op": "ul", "index": 0x2100 + k, "sub": 0, "data": data,
                                                 "style": style, "route": "upload"}]}
                    yield {"od": tod, "xfers": [{"op": "ul", "index": 0x2200, "sub": k + 1, "data": data,
                                                 "style": style, "route": "var_data", "toplevel": False}]}
                yield {"od": tod, "xfers": [{"op": "ul", "index": 0x2300 + k, "sub": 1 + (rot * 7) % 255, "data": data,
                                             "style": sty[rot % len(sty)],
                                             "route": ("upload", "var_data")[rot % 2], "toplevel": False}]}
                yield {"od": tod, "xfers": [{"op": "dl", "index": (0x2100 + k, 0x2200)[rot % 2],
                                             "sub": (0, k + 1)[rot % 2], "data": data, "route": "var_data",
                                             "toplevel": not rot % 2}]}


# ---- histories in which the client's dictionary is edited between transfers at one address ----
PROBE = {"var": (0x2400, 0), "recm": (0x2401, 3), "arr1": (0x2402, 1), "arrt": (0x2403, 0x21)}
OTHER = (0x2410, 0)


def _wclass(dt):
    """number of bytes an upload is cut to under this declaration (None: not cut)"""
    return rc.width(dt) // 8 if dt in FIXED else None


def _probe_obj(shape, dt, gen):
    """the dictionary object that declares the probe address of `shape` with type dt (dt None: the object
    is there - except for a VAR - but the probe address is not declared)"""
    index = PROBE[shape][0]
    if shape == "var":
        return {"kind": "var", "index": index, "name": f"v{gen}", "dt": dt}
    if shape == "recm":
        return {"kind": "record", "index": index, "name": f"r{gen}", "members": [
            {"sub": 0, "name": "n", "dt": rc.UNSIGNED8}, {"sub": 1, "name": "a", "dt": rc.UNSIGNED16}]
            + ([{"sub": 3, "name": f"m{gen}", "dt": dt}] if dt is not None else [])}
    return {"kind": "array", "index": index, "name": f"a{gen}", "members": [
        {"sub": 0, "name": "n", "dt": rc.UNSIGNED8}, {"sub": 1, "name": f"el{gen}", "dt": dt}]}


def _ways(shape, a, b, gen):
    """every public-API edit that takes the declaration of the probe address from type a to type b
    (None = not declared); the last one always works whatever was done before (whole object / delete)."""
    index, sub = PROBE[shape]
    add = {"op": "od", "edit": "add", "index": index, "obj": _probe_obj(shape, b, gen)}
    if shape == "var":
        if a is None:
            return [add]
        if b is None:
            return [{"op": "od", "edit": "del", "index": index, "sub": None}]
        return [{"op": "od", "edit": "retype", "index": index, "sub": 0, "dt": b}, add]
    if shape == "recm":
        member = {"op": "od", "edit": "add_member", "index": index,
                  "member": {"sub": sub, "name": f"m{gen}", "dt": b}}
        if a is None:
            return [member, add]
        if b is None:
            return [{"op": "od", "edit": "del", "index": index, "sub": sub}, add]
        return [{"op": "od", "edit": "retype", "index": index, "sub": sub, "dt": b}, member, add]
    # arrays: the probe is member 1 itself, or a member that exists only through the template of member 1
    return [{"op": "od", "edit": "retype", "index": index, "sub": 1, "dt": b},
            {"op": "od", "edit": "add_member", "index": index,
             "member": {"sub": sub, "name": f"el{gen}", "dt": b}},
            add]


def reconf_cases(full=False):
    """upload(address) - the declaration of that address changes - upload(address) again, and longer
    forms; for every pair of declarations that cut an upload differently, for every shape of entry and
    every public way of changing the declaration."""
    types = [None] + list(rc.ALL_TYPES) if full else \
        [None, rc.BOOLEAN, rc.UNSIGNED8, rc.INTEGER16, rc.UNSIGNED24, rc.INTEGER32, rc.REAL32, rc.UNSIGNED40,
         rc.INTEGER48, rc.UNSIGNED56, rc.UNSIGNED64, rc.REAL64, rc.VISIBLE_STRING, rc.DOMAIN]
    rot = 0
    for a in types:
        for b in types:
            if a == b or _wclass(a) == _wclass(b):
                continue            # same number of bytes before and after: nothing to tell apart
            low = min(w for w in (_wclass(a), _wclass(b)) if w is not None)
            for shape in PROBE:
                if shape.startswith("arr") and (a is None or b is None):
                    continue        # an array always describes all its members
                index, sub = PROBE[shape]
                od = [{"kind": "var", "index": OTHER[0], "name": "other", "dt": rc.UNSIGNED16}]
                if not (shape == "var" and a is None):
                    od.append(_probe_obj(shape, a, 0))
                ways = _ways(shape, a, b, 1)
                forms = (0, 1, 2)
                for wi, way in enumerate(ways):
                    rot += 1
                    for form in (forms if full else [rot % 3]):
                        for vroute in (("upload", "var_data") if full else [("upload", "var_data")[(rot // 3) % 2]]):
                            lens = [n for n in (4, 8, 9, 12) if n > low]
                            n = lens[rot % len(lens)]
                            sty = styles_for(n)

                            def ul(k, dt_now):
                                x = {"op": "ul", "index": index, "sub": sub, "data": _payload(n, rot + k),
                                     "style": sty[(rot + k) % len(sty)],
                                     "route": vroute if dt_now is not None else "upload"}
                                if x["route"] == "var_data":
                                    x["toplevel"] = shape == "var"
                                return x
                            xf = [ul(0, a), way, ul(1, b)]
                            if form == 1:
                                # other transfers between the edit and the second upload
                                xf = [ul(0, a), way,
                                      {"op": "ul", "index": OTHER[0], "sub": 0, "data": _payload(n, rot + 2),
                                       "style": sty[rot % len(sty)], "route": "upload"},
                                      {"op": "dl", "index": index, "sub": sub, "data": _payload(n, rot + 3),
                                       "route": "download", "force": bool(rot % 2)},
                                      ul(1, b), ul(4, b)]
                            elif form == 2:
                                # ... and back again
                                xf += [_ways(shape, b, a, 2)[-1], ul(2, a)]
                            yield {"od": od, "xfers": xf}


def lengths(max_len):
    boundary = sorted({7 * k + d for k in range(1, 20) for d in (-1, 0, 1)} |
                      {888, 889, 890, 1023, 1024, 1025, 8191, 8192, 8193} | set(range(0, 10)))
    boundary = [b for b in boundary if b <= max_len]
    logu = st.integers(0, int(math.log2(max_len) * 16)).map(lambda e: min(max_len, int(2 ** (e / 16.0))))
    return st.one_of(st.integers(0, 64), st.sampled_from(boundary), logu)


def chunking(n):
    if n == 0:
        return st.just([])
    return st.one_of(
        st.just([n]),
        st.integers(1, 9).map(lambda k: [k] * (n // k)),
        st.lists(st.integers(1, max(1, min(n, 40))), min_size=1, max_size=12),
    )


@st.composite
def history(draw, max_len, wide=False):
    """wide=False draws exactly what this strategy drew before the address / response-style / content
    classes below were added (same draw sequence, so the same examples for a given seed); wide=True adds:
    addresses whose index is in the dictionary but whose sub-index is not declared, the 'empty last
    segment' server style, payloads in which zero bytes matter (also NUL in text)."""
    nvars = draw(st.integers(0, 5))
    od = []
    used = set()
    for i in range(nvars):
        index = draw(st.integers(0x1000, 0xFFFF).filter(lambda v: not 0x1400 <= v <= 0x1BFF))
        if index in used:
            continue
        used.add(index)
        dts = FIXED + list(rc.STRINGS)
        shape = draw(st.integers(0, 3))
        if shape <= 1:
            od.append({"kind": "var", "index": index, "name": f"v{i}", "dt": draw(st.sampled_from(dts))})
        elif shape == 2:
            od.append({"kind": "array", "index": index, "name": f"a{i}", "members": [
                {"sub": 0, "name": "n", "dt": rc.UNSIGNED8},
                {"sub": 1, "name": "el", "dt": draw(st.sampled_from(dts))}]})
        else:
            subs = sorted(draw(st.sets(st.integers(1, 255), min_size=1, max_size=3)))
            od.append({"kind": "record", "index": index, "name": f"r{i}", "members":
                       [{"sub": 0, "name": "n", "dt": rc.UNSIGNED8}] +
                       [{"sub": s, "name": f"m{s}", "dt": draw(st.sampled_from(dts))} for s in subs]})
    ent = []
    for o in od:
        if o["kind"] == "var":
            ent.append((o["index"], 0, o["dt"], True))
        else:
            for m in o["members"]:
                ent.append((o["index"], m["sub"], m["dt"], False))
            if o["kind"] == "array":
                for sub in sorted(draw(st.sets(st.integers(2, 255), max_size=2))):
                    ent.append((o["index"], sub, o["members"][1]["dt"], False))
    # objects of which the dictionary declares only some sub-indices: VAR (sub 0 only) and records
    partial = [o for o in od if o["kind"] in ("var", "record")]
    xfers = []
    for _ in range(draw(st.integers(1, 6))):
        in_od = bool(ent) and draw(st.booleans())
        near = wide and not in_od and bool(partial) and draw(st.booleans())
        if in_od:
            index, sub, dt, top = draw(st.sampled_from(ent))
        elif near:
            o = draw(st.sampled_from(partial))
            index, dt, top = o["index"], None, False
            taken = {0} if o["kind"] == "var" else {m["sub"] for m in o["members"]}
            sub = draw(st.integers(0, 255).filter(lambda v: v not in taken))
        else:
            index = draw(st.integers(0, 0xFFFF).filter(lambda v: v not in used))
            sub, dt, top = draw(st.integers(0, 255)), None, False
        n = draw(lengths(max_len))
        text = draw(st.integers(0, 5)) == 0
        if text and n <= 1500:
            data = draw(st.text(st.characters(min_codepoint=0 if wide else 1, max_codepoint=127,
                                              exclude_characters="\r"),
                                min_size=n, max_size=n)).encode("ascii")
        elif text:
            data = ascii_payload(n, draw(st.integers(0, 255)))
        elif wide and n and draw(st.integers(0, 2)) == 0:
            data = _zpayload(n, draw(st.integers(0, 3)), draw(st.integers(0, 255)))
        elif n <= 1500 and draw(st.integers(0, 3)) == 0:
            data = draw(st.binary(min_size=n, max_size=n))
        else:
            data = _payload(n, draw(st.integers(0, 255)))
        if draw(st.booleans()):
            x = {"op": "dl", "index": index, "sub": sub, "data": data}
            r = draw(st.sampled_from(["download", "open", "open", "var_data"] if in_od else
                                     ["download", "open", "open"]))
            x["route"] = r
            if r == "download":
                x["force"] = draw(st.booleans())
            elif r == "var_data":
                x["toplevel"] = top
            else:
                x["size_decl"] = draw(st.booleans())
                x["force"] = draw(st.integers(0, 3)) == 0
                x["chunks"] = draw(chunking(n))
                if text:
                    x["text"] = True
                    x["buffering"] = draw(st.sampled_from([1, 2, 5, 7, 16, 1024]))
                else:
                    x["buffering"] = draw(st.sampled_from(BUFFERINGS))
                    x["close_twice"] = draw(st.integers(0, 3)) == 0
                    if in_od and draw(st.booleans()):
                        x["var_open"] = True
                        x["toplevel"] = top
                        x.pop("force")
        else:
            x = {"op": "ul", "index": index, "sub": sub, "data": data,
                 "style": draw(st.sampled_from(styles_for(n)))}
            if n > 1 and draw(st.integers(0, 3)) == 0:
                x["ul_chunks"] = draw(st.lists(st.integers(1, 7), min_size=1, max_size=4))
            if wide and n and x["style"].startswith("seg") and draw(st.integers(0, 2)) == 0:
                x["empty_last"] = True
            r = draw(st.sampled_from(["upload", "open", "open", "var_data"] if in_od else
                                     ["upload", "open", "open"]))
            x["route"] = r
            if r == "var_data":
                x["toplevel"] = top
            elif r == "open":
                if text:
                    x["text"] = True
                    x["buffering"] = draw(st.sampled_from([1, 2, 5, 7, 16, 1024]))
                    x["lines"] = draw(st.booleans())
                else:
                    x["buffering"] = draw(st.sampled_from(BUFFERINGS))
                    if in_od and draw(st.booleans()):
                        x["var_open"] = True
                        x["toplevel"] = top
                x["reads"] = draw(st.one_of(st.none(), st.lists(st.integers(1, 70), min_size=1, max_size=4),
                                            st.lists(st.integers(1, 9), min_size=1, max_size=3).map(lambda l: l + [None]),
                                            st.lists(st.one_of(st.integers(-9, -1), st.integers(1, 9), st.none()),
                                                     min_size=1, max_size=4)))
        xfers.append(x)
    return {"od": od, "xfers": xfers}


@st.composite
def reconf_history(draw, max_len):
    """3..9 operations on one client: transfers at a handful of addresses (so that addresses repeat) and, in
    between, edits of the client's dictionary through its public API that change what it declares there."""
    dts = list(rc.ALL_TYPES)
    dt_st = st.sampled_from(dts)
    pool = sorted(draw(st.sets(st.integers(0x1000, 0xFFFF).filter(lambda v: not 0x1400 <= v <= 0x1BFF),
                               min_size=1, max_size=3)))
    subs = sorted({0, 1} | draw(st.sets(st.integers(2, 255), min_size=1, max_size=2)))
    gen = [0]

    def new_obj(index):
        gen[0] += 1
        g = gen[0]
        shape = draw(st.integers(0, 3))
        if shape <= 1:
            return {"kind": "var", "index": index, "name": f"v{g}", "dt": draw(dt_st)}
        if shape == 2:
            return {"kind": "array", "index": index, "name": f"a{g}", "members": [
                {"sub": 0, "name": f"n{g}", "dt": rc.UNSIGNED8}, {"sub": 1, "name": f"el{g}", "dt": draw(dt_st)}]}
        listed = sorted(draw(st.sets(st.sampled_from(subs[1:]), max_size=len(subs) - 1)))
        return {"kind": "record", "index": index, "name": f"r{g}", "members":
                [{"sub": 0, "name": f"n{g}", "dt": rc.UNSIGNED8}] +
                [{"sub": s, "name": f"m{g}_{s}", "dt": draw(dt_st)} for s in listed]}

    spec = [new_obj(i) for i in pool if draw(st.integers(0, 3))]
    od0 = copy.deepcopy(spec)
    ops = []
    for _ in range(draw(st.integers(3, 9))):
        if draw(st.integers(0, 2)) == 0:
            kinds = ["add"]
            if spec:
                kinds += ["retype", "retype", "del"]
            if any(o["kind"] != "var" for o in spec):
                kinds.append("add_member")
            kind = draw(st.sampled_from(kinds))
            if kind == "add":
                index = draw(st.sampled_from(pool))
                e = {"op": "od", "edit": "add", "index": index, "obj": new_obj(index)}
            elif kind == "add_member":
                o = draw(st.sampled_from([o for o in spec if o["kind"] != "var"]))
                gen[0] += 1
                sub = draw(st.sampled_from(subs))
                e = {"op": "od", "edit": "add_member", "index": o["index"],
                     "member": {"sub": sub, "name": f"m{gen[0]}_{sub}", "dt": draw(dt_st)}}
            else:
                o = draw(st.sampled_from(spec))
                if o["kind"] != "var" and not o["members"]:
                    kind = "del"                    # a record emptied by earlier edits: only the object itself is left
                if o["kind"] == "var":
                    sub = 0 if kind == "retype" else None
                elif not o["members"]:
                    sub = None
                elif kind == "retype" or (o["kind"] == "record" and draw(st.booleans())):
                    sub = draw(st.sampled_from([m["sub"] for m in o["members"]]))
                else:
                    sub = None
                e = {"op": "od", "edit": kind, "index": o["index"], "sub": sub}
                if kind == "retype":
                    e["dt"] = draw(dt_st)
            spec = apply_edit(spec, e)
            ops.append(e)
            continue
        index = draw(st.sampled_from(pool))
        sub = draw(st.sampled_from(subs))
        declared = _decl_maps(spec)[0].get((index, sub)) is not None
        top = any(o["index"] == index and o["kind"] == "var" for o in spec)
        n = draw(st.one_of(st.integers(0, 12), lengths(max_len)))
        data = draw(st.binary(min_size=n, max_size=n)) if n <= 64 and draw(st.booleans()) else \
            _payload(n, draw(st.integers(0, 255)))
        if draw(st.integers(0, 2)):
            x = {"op": "ul", "index": index, "sub": sub, "data": data, "style": draw(st.sampled_from(styles_for(n)))}
            x["route"] = draw(st.sampled_from(["upload", "upload", "open"] + (["var_data"] * 2 if declared else [])))
            if x["route"] == "open":
                x["buffering"] = draw(st.sampled_from(BUFFERINGS))
                x["reads"] = None
        else:
            x = {"op": "dl", "index": index, "sub": sub, "data": data}
            x["route"] = draw(st.sampled_from(["download", "open"] + (["var_data"] if declared else [])))
            if x["route"] == "download":
                x["force"] = draw(st.booleans())
            elif x["route"] == "open":
                x["size_decl"] = draw(st.booleans())
                x["force"] = False
                x["buffering"] = draw(st.sampled_from(BUFFERINGS))
                x["chunks"] = draw(chunking(n))
        if x["route"] == "var_data":
            x["toplevel"] = top
        ops.append(x)
    return {"od": od0, "xfers": ops}


def search(ctx):
    thorough = ctx.tier == "thorough"
    # (small; first, so that a loaded machine's budget cut never removes it)
    ctx.enumerate(reconf_cases(full=thorough),
                  "upload - dictionary edit (retype / add_object / add_member / del) - upload at one address: every "
                  "pair of declarations that cut differently x VAR / record member / array member / array template")
    ctx.enumerate(enum_cases(full=thorough),
                  "every payload length 0..64 x every route/style/buffering class; x addresses with an "
                  "undeclared sub-index under a declared index; x 'empty last segment' server style; x string "
                  "entries with zero-byte payloads; every fixed-size type x lengths around its width")
    # two streams of random histories (original classes: even salts; with the added address / server-style /
    # content classes: odd salts), alternating so that the cooperative budget cuts both alike
    max_len = 10000 if thorough else 2000
    for part in range(5 if thorough else 1):
        # a third (small) stream first: histories with dictionary edits between transfers at a few repeating addresses
        ctx.hypothesis(reconf_history(300), 2000 if thorough else 800, salt=100 + part)
        ctx.hypothesis(history(max_len), 3000 if thorough else 1500, salt=2 * part)
        ctx.hypothesis(history(max_len, wide=True), 3000 if thorough else 1500, salt=2 * part + 1)
