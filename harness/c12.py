"""C12 - SDO block download delivers exactly the payload or fails visibly.

SUT: BlockDownloadStream (via SdoClient.open(..., 'wb', block_transfer=True)),
CrcXmodem.  Peer: strict RefSdoServer (block download side) with its own
bitwise CRC-16/XMODEM, a generated sequence of sub-block sizes, and an
emulated server time-out (the fault injector tells the model which client
frame it dropped).
"""
import math

from hypothesis import strategies as st

from harness.core import Discrepancy, Outcome
from harness.odutil import build_od
from harness.refsdo import RefSdoServer
from harness.simbus import Hub

PROPERTY = "C12"
LEVEL = "fault_enumeration"
RULE = ("case = (payload length and content, sequence of sub-block sizes 1..127 offered by the server, CRC "
        "requested by client x supported by server, write route: raw stream with a generated chunking / "
        "buffered stream, set of client segment ordinals to drop, counted over the segments the client "
        "transmits, retransmitted ones included). Enumerated: every length 1..64 and all "
        "7k+-1 / blksize*7+-1 boundaries undisturbed; every single lost segment position for lengths <= 200 "
        "x block sizes {1,2,3,4,127,mixed} with CRC requested, again for lengths <= 200 without CRC, and for "
        "lengths 150..2000 x block sizes 10..127 (acknowledged sequence numbers up to 126); lengths 4000..10001 "
        "undisturbed and with one repairable loss; every pair of "
        "lost transmitted segments k1 < k2 (k2 may be a retransmitted segment: loss inside the "
        "retransmission) for lengths {33,70,75,100} x block sizes {1,2,3,4,[5,2],[5,1,127,2],[2,9]} x CRC "
        "on/off; Hypothesis adds random lengths up to 10^4, random block-size sequences, multi-loss sets and "
        "nested patterns (first loss, then a loss among the segments resent for it, then possibly a third). "
        "Oracle: strict reference block server (sequence numbers, c flag, n, CRC recomputed bitwise, size, "
        "reserved bits); undisturbed, or exactly one lost segment (any segment, the one closing the sub-block "
        "included) of a sub-block that is not the final one => normal return and exact payload; otherwise "
        "normal return => exactly one commit of exactly the payload and the server not left mid-transfer. "
        "Non-trivial = >=2 sub-blocks, or a loss, or a block-size change; distinct = canonical JSON.")
ASSUMPTIONS = [
    "a server time-out is emulated: when the dropped frame was the one ending the sub-block the model "
    "acknowledges at once what it has received in sequence (so a lost last segment of a non-final sub-block is "
    "answered with ackseq = block size - 1 and the next block size, as a conformant server does after its "
    "time-out)",
    "'a sub-block other than the final one' is read as: the lost segment belongs to a sub-block that is not the "
    "final one of the undisturbed partition; a single loss inside the final sub-block is in the 'may fail' class",
    "buffered routes only use writes the raw stream's documented contract supports (one write of the whole "
    "payload, or chunks that are multiples of 7 with a buffer that is a multiple of 7)",
]
BUDGET = {"quick": 150, "thorough": 420}
NODE = 2


def payload(n, salt):
    if salt % 4 == 1:
        # mostly zero bytes (whole segments of zeros after non-zero data): an erased / sparse domain
        return bytes((((i * 31 + salt) % 255) + 1) if i % 23 == salt % 23 else 0 for i in range(n))
    if salt % 4 == 3 and n > 9:
        # one zero segment in otherwise dense data
        z = 7 * ((salt // 4) % max(1, n // 7))
        return bytes(0 if z <= i < z + 7 else ((i * 31 + salt * 7 + (i >> 8)) % 255) + 1 for i in range(n))
    return bytes(((i * 31 + salt * 7 + (i >> 8)) % 255) + 1 for i in range(n))


def subblocks(nsegs, blksizes):
    """Undisturbed partition of segment numbers 0..nsegs-1 into sub-blocks."""
    out = []
    a = 0
    i = 0
    while a < nsegs:
        b = blksizes[i % len(blksizes)]
        i += 1
        out.append((a, min(nsegs, a + b) - 1))
        a += b
    return out


def run_case(case) -> Outcome:
    import canopen
    n = case["len"]
    data = bytes(case["data"]) if "data" in case else payload(n, case.get("salt", 0))
    blks = case["blksizes"]
    loss = set(case.get("loss", []))
    hub = Hub()
    srv = RefSdoServer(0x600 + NODE, 0x580 + NODE)
    srv.attach(hub)
    srv.blksizes = list(blks)
    srv.crc_support = case.get("crc_srv", True)
    net, port = hub.attach("client")
    node = canopen.RemoteNode(NODE, build_od([]))
    net.add_node(node)
    for _ in range(case.get("readd", 0)):
        net.add_node(node)          # the same node object registered again: still one SDO response per frame
    node.sdo.RESPONSE_TIMEOUT = 0.01
    if case.get("pre_fail"):
        # an earlier block download through the same client that fails half-way (the server loses
        # every segment from the k-th on and finally nothing comes back); nothing of it may leak into
        # the transfer under test
        pk = case["pre_fail"]
        seen = {"n": 0}

        def pre_flt(fr, h):
            # the server's answers get lost from the pk-th on (pk = 1: already the first acknowledge
            # after the initiate response): the client times out, aborts and gives the transfer up
            if fr.can_id == srv.tx_id:
                seen["n"] += 1
                if seen["n"] > pk:
                    return []
            return [fr]
        hub.filter = pre_flt
        try:
            with node.sdo.open(0x2FFF, 1, "wb", size=2000, block_transfer=True, buffering=0,
                               request_crc_support=True) as fp0:
                _raw_write(fp0, bytes([0xEE]) * 2000, [])
        except Exception:
            pass
        hub.filter = None
        srv._reset()
        srv.errors.clear()
        srv.commits[:] = []
        srv.client_aborts[:] = []
        srv._blk_i = 0
    counter = {"seg": 0, "dropped": 0}

    def flt(fr, h):
        if fr.can_id == srv.rx_id and srv.state == srv.BDL_SUB and fr.data[:1] != b"\x80":
            k = counter["seg"]
            counter["seg"] += 1
            if k in loss:
                counter["dropped"] += 1
                srv.lost_client_frame(fr.data)
                return []
        return [fr]

    hub.filter = flt
    exc = None
    try:
        fp = node.sdo.open(0x2000 + (n & 0xFF), n & 0x7F, "wb", size=n, block_transfer=True,
                           buffering=case["buffering"], request_crc_support=case.get("crc_req", True))
        with fp:
            if case["buffering"] == 0:
                _raw_write(fp, data, case.get("chunks") or [])
            else:
                pos = 0
                for k in case.get("chunks") or []:
                    fp.write(data[pos:pos + k])
                    pos += k
                if pos < n:
                    fp.write(data[pos:])
    except Exception as e:
        exc = e
    D = []
    nsegs = max(1, math.ceil(n / 7))
    parts = subblocks(nsegs, blks)
    dropped = counter["dropped"]
    # "one segment of a sub-block other than the final one is lost": exactly one client segment was dropped
    # and it belonged to a sub-block that is not the final one - whichever segment of that sub-block it was,
    # the one closing the sub-block included (the server then acknowledges one segment less than the block
    # size after its time-out and CiA 301 has the client resend from ackseq + 1).
    repairable = False
    last_of_subblock = False
    if dropped == 1 and len(loss) >= 1:
        k = min(loss)
        for j, (a, b) in enumerate(parts):
            if a <= k <= b:
                repairable = j < len(parts) - 1
                last_of_subblock = k == b
    committed = [c for c in srv.commits if (c[0], c[1]) == (0x2000 + (n & 0xFF), n & 0x7F)]
    idx, sub = 0x2000 + (n & 0xFF), n & 0x7F
    where = (f"len {n} blksizes {blks[:6]} crc {case.get('crc_req', True)}/{srv.crc_support} buffering "
             f"{case['buffering']} loss {sorted(loss)[:6]}")
    if dropped == 0:
        kind = "undisturbed"
        if exc is not None:
            D.append(Discrepancy("C12/undisturbed/raises", f"{where}: {type(exc).__name__}: {exc}; server "
                                                           f"errors {srv.errors[:2]}"))
        elif srv.errors:
            D.append(Discrepancy(f"C12/undisturbed/frame/{srv.errors[0].kind}", f"{where}: {srv.errors[0]}"))
        elif len(committed) != 1 or committed[0][2] != data:
            D.append(Discrepancy("C12/undisturbed/payload", f"{where}: server committed "
                                 f"{[(c[2][:16].hex(), len(c[2])) for c in committed]} want {len(data)}B"))
        elif srv.client_aborts:
            D.append(Discrepancy("C12/undisturbed/abort", f"{where}: client aborted {srv.client_aborts}"))
    elif repairable:
        kind = "single-loss-last-of-subblock" if last_of_subblock else "single-loss-repairable"
        sig = "C12/repairable-loss/last-of-subblock" if last_of_subblock else "C12/repairable-loss"
        if exc is not None:
            D.append(Discrepancy(sig + "/raises",
                                 f"{where}: {type(exc).__name__}: {exc}; server errors {srv.errors[:2]}"))
        elif len(committed) != 1 or committed[0][2] != data:
            D.append(Discrepancy(sig + "/payload", f"{where}: server committed "
                                 f"{[(c[2][:16].hex(), len(c[2])) for c in committed]} want {len(data)}B"))
    else:
        kind = ("other-loss" if dropped == 1 else "two-loss" if dropped == 2 else "multi-loss") + \
            "/" + ("returned" if exc is None else "raised")
        if exc is None and (len(committed) != 1 or committed[0][2] != data):
            D.append(Discrepancy("C12/loss/normal-return-without-exact-payload",
                                 f"{where}: returned normally but server committed "
                                 f"{[(c[2][:16].hex(), len(c[2])) for c in committed]} want {len(data)}B"))
    if exc is None and srv.state != srv.IDLE and not D:
        D.append(Discrepancy("C12/unfinished", f"{where}: call returned but server is mid-transfer"))
    nontrivial = len(parts) >= 2 or dropped > 0 or len(set(blks[:len(parts)])) > 1
    return Outcome(nontrivial, f"{kind}/{'multi' if len(parts) > 1 else 'single'}-block/"
                               f"{'crc' if case.get('crc_req', True) and srv.crc_support else 'nocrc'}", D)


def _raw_write(fp, data, chunks):
    pos = 0
    ci = 0
    want = chunks[0] if chunks else len(data)
    guard = 0
    while pos < len(data):
        guard += 1
        if guard > 3 * len(data) + 50:
            raise RuntimeError("raw block write makes no progress")
        end = min(len(data), pos + want)
        k = fp.write(data[pos:end])
        if not k:
            if end == len(data):
                raise RuntimeError("raw block write refused the complete remaining payload")
            want += 1
            continue
        pos += k
        ci += 1
        want = chunks[ci] if ci < len(chunks) else len(data)


# ---- generation --------------------------------------------------------------
BLK_SEQS = [[127], [1], [2], [3], [4], [5, 1, 127, 2], [127, 1], [7, 3], [126, 127]]


def boundary_lengths():
    s = set(range(1, 65))
    for k in range(1, 30):
        s |= {7 * k - 1, 7 * k, 7 * k + 1}
    for b in (1, 2, 3, 4, 5, 7, 126, 127):
        for m in (1, 2, 3):
            s |= {7 * b * m - 1, 7 * b * m, 7 * b * m + 1}
    return sorted(x for x in s if x >= 1)


def enum_undisturbed():
    i = 0
    for n in boundary_lengths():
        for blks in BLK_SEQS:
            if math.ceil(n / 7) / max(1, min(blks)) > 400:
                continue
            for crc_req, crc_srv in ((True, True), (True, False), (False, True), (False, False)):
                i += 1
                route = [(0, []), (0, [7] * 3 + [13, 1, 20]), (1024, []), (7, [7, 14, 7]), (700, [700, 70])][i % 5]
                yield {"len": n, "salt": i % 13, "blksizes": blks, "crc_req": crc_req, "crc_srv": crc_srv,
                       "buffering": route[0], "chunks": route[1], "readd": (0, 0, 0, 1, 0, 2, 0)[i % 7]}
                if i % 9 == 0:
                    yield {"len": n, "salt": i % 13, "blksizes": blks, "crc_req": crc_req, "crc_srv": crc_srv,
                           "buffering": route[0], "chunks": route[1], "pre_fail": 1 + i % 3}


def enum_single_loss():
    for n in list(range(1, 201, 3)) + [6, 7, 8, 13, 14, 15, 20, 21, 22, 28, 29, 35, 49, 50, 56, 57, 63, 199, 200]:
        nsegs = math.ceil(n / 7)
        for blks in ([127], [1], [2], [3], [4], [5, 1, 127, 2], [2, 9]):
            for k in range(nsegs):
                yield {"len": n, "salt": k, "blksizes": blks, "crc_req": True, "crc_srv": (k + n) % 4 != 0,
                       "buffering": 0 if k % 2 else 1024, "chunks": [], "loss": [k]}


def enum_single_loss_nocrc():
    """The single-loss positions again without CRC (not requested, or requested and not supported): nothing
    but the retransmission itself protects the payload there."""
    for n in list(range(2, 201, 9)) + [14, 15, 49, 50, 63, 64, 70, 71]:
        nsegs = math.ceil(n / 7)
        for blks in ([1], [2], [3], [4], [5, 1, 127, 2], [2, 9], [7, 3]):
            for k in range(nsegs):
                yield {"len": n, "salt": k + 1, "blksizes": blks, "crc_req": (k + n) % 3 == 0, "crc_srv": (k + n) % 3 != 0,
                       "buffering": 1024 if k % 2 else 0, "chunks": [], "loss": [k]}


def enum_single_loss_big(thorough):
    """Every single lost segment position with block sizes / acknowledged sequence numbers well above 9
    (a sub-block of 127 is only non-final when the payload is longer than 889 bytes)."""
    combos = [(150, [10]), (300, [20, 9]), (900, [64]), (900, [127, 3]), (1000, [100, 127]), (1790, [127])]
    if thorough:
        combos += [(889 + 8, [127]), (2 * 889 + 1, [127, 126]), (700, [33, 17, 90]), (1500, [126]),
                   (1200, [50, 127, 1]), (640, [13]), (2000, [127, 127, 5])]
    for n, blks in combos:
        nsegs = math.ceil(n / 7)
        for k in range(nsegs):
            crc_req, crc_srv = ((True, True), (False, True), (True, False), (True, True))[(k + n) % 4]
            yield {"len": n, "salt": k % 29, "blksizes": blks, "crc_req": crc_req, "crc_srv": crc_srv,
                   "buffering": (0, 1024, 0, 7 * 64)[k % 4], "chunks": [], "loss": [k]}


def enum_long(thorough):
    """Undisturbed transfers (and one repairable loss) at the upper end of the quantifier's length range."""
    lens = [4000, 7 * 127 * 9 - 1, 7 * 127 * 9, 7 * 127 * 9 + 1, 9996, 9999, 10000, 10001]
    if thorough:
        lens += [5000, 6223, 7 * 127 * 11, 7 * 127 * 11 + 1, 9995, 9997, 10003, 10500]
    i = 0
    for n in lens:
        for blks in ([127], [126, 127], [64], [5, 1, 127, 2, 90]):
            for crc_req, crc_srv in ((True, True), (False, True)) + (((True, False), (False, False)) if thorough else ()):
                i += 1
                route = [(0, []), (1024, []), (0, [7] * 3 + [13, 1, 20]), (700, [700, 70])][i % 4]
                case = {"len": n, "salt": i % 13, "blksizes": blks, "crc_req": crc_req, "crc_srv": crc_srv,
                        "buffering": route[0], "chunks": route[1]}
                yield case
                if i % 2:
                    yield dict(case, loss=[(i * 37) % (math.ceil(n / 7) - 130)])


TWO_LOSS_BLKS = [[1], [2], [3], [4], [5, 2], [5, 1, 127, 2], [2, 9]]


def enum_two_loss(thorough):
    """Every pattern of two lost client segments k1 < k2 counted over the segments the client transmits,
    retransmitted ones included (k2 beyond the first pass = a loss inside the retransmission)."""
    lens = [33, 70, 75, 100]
    if thorough:
        lens += [20, 36, 64, 99, 105, 141, 200]
    for n in lens:
        nsegs = math.ceil(n / 7)
        for blks in TWO_LOSS_BLKS:
            hi = nsegs + 2 * min(max(blks), nsegs) + 2
            hi = min(hi, nsegs + (24 if thorough else 12))
            for crc_req, crc_srv in ((True, True), (False, True)) + (((True, False),) if thorough else ()):
                for k1 in range(nsegs):
                    for k2 in range(k1 + 1, hi):
                        yield {"len": n, "salt": k1 + 3 * k2, "blksizes": blks, "crc_req": crc_req,
                               "crc_srv": crc_srv, "buffering": 1024 if (k1 + k2) % 3 == 0 else 0, "chunks": [],
                               "loss": [k1, k2]}


@st.composite
def rand_nested_loss(draw, max_len):
    """Seeded multi-loss patterns aimed at the retransmission: a first loss k1 in some sub-block [a, b]
    (its resend starts with transmitted segment number b + 1), a second loss among the resent segments and
    possibly further ones shortly after; lengths up to max_len, any block-size sequence."""
    n = draw(st.one_of(st.integers(8, 400), st.sampled_from(boundary_lengths()),
                       st.integers(24, int(math.log2(max_len) * 8)).map(lambda e: min(max_len, int(2 ** (e / 8.0))))))
    blks = draw(st.one_of(st.lists(st.integers(1, 12), min_size=1, max_size=5),
                          st.lists(st.integers(1, 127), min_size=1, max_size=6)))
    nsegs = math.ceil(n / 7)
    if nsegs / min(blks) > 600:
        blks = [b if b > 3 else 127 for b in blks]
    parts = subblocks(nsegs, blks)
    j = draw(st.integers(0, max(0, len(parts) - 2)))
    if draw(st.integers(0, 7)) == 0:
        j = len(parts) - 1
    a, b = parts[j]
    k1 = draw(st.integers(a, b))
    resent = b - k1 + 1
    mode = draw(st.sampled_from(["one", "nested", "nested", "nested3", "later"]))
    loss = [k1]
    if mode in ("nested", "nested3"):
        loss.append(b + 1 + draw(st.integers(0, resent - 1)))
        if mode == "nested3":
            loss.append(loss[-1] + 1 + draw(st.integers(0, resent + 2)))
    elif mode == "later":
        loss.append(b + 1 + resent + draw(st.integers(0, 20)))
    case = {"len": n, "salt": draw(st.integers(0, 200)), "blksizes": blks,
            "crc_req": draw(st.booleans()), "crc_srv": draw(st.integers(0, 3)) != 0}
    route = draw(st.sampled_from(["raw", "raw", "raw_chunks", "buffered_all", "buffered_7"]))
    if route == "raw":
        case.update(buffering=0, chunks=[])
    elif route == "raw_chunks":
        case.update(buffering=0, chunks=draw(st.lists(st.integers(1, 40), min_size=1, max_size=10)))
    elif route == "buffered_all":
        case.update(buffering=draw(st.sampled_from([2, 7, 100, 700, 1024, 8192])), chunks=[])
    else:
        case.update(buffering=7 * draw(st.integers(1, 200)),
                    chunks=[7 * k for k in draw(st.lists(st.integers(1, 30), min_size=1, max_size=8))])
    case["loss"] = loss
    return case


@st.composite
def rand_case(draw, max_len):
    n = draw(st.one_of(st.sampled_from(boundary_lengths()), st.integers(1, 300),
                       st.integers(1, int(math.log2(max_len) * 8)).map(lambda e: max(1, min(max_len, int(2 ** (e / 8.0)))))))
    blks = draw(st.lists(st.integers(1, 127), min_size=1, max_size=6))
    nsegs = math.ceil(n / 7)
    if nsegs / min(blks) > 600:
        blks = [b if b > 3 else 127 for b in blks]
    case = {"len": n, "blksizes": blks, "crc_req": draw(st.booleans()), "crc_srv": draw(st.booleans())}
    if n <= 1500 and draw(st.booleans()):
        case["data"] = draw(st.binary(min_size=n, max_size=n))
    else:
        case["salt"] = draw(st.integers(0, 200))
    route = draw(st.sampled_from(["raw", "raw_chunks", "buffered_all", "buffered_7"]))
    if route == "raw":
        case.update(buffering=0, chunks=[])
    elif route == "raw_chunks":
        case.update(buffering=0, chunks=draw(st.lists(st.integers(1, 40), min_size=1, max_size=10)))
    elif route == "buffered_all":
        case.update(buffering=draw(st.sampled_from([2, 7, 100, 700, 1024, 8192])), chunks=[])
    else:
        case.update(buffering=7 * draw(st.integers(1, 200)),
                    chunks=[7 * k for k in draw(st.lists(st.integers(1, 30), min_size=1, max_size=8))])
    if draw(st.integers(0, 5)) == 0:
        case["readd"] = draw(st.integers(1, 2))
    if draw(st.integers(0, 5)) == 0:
        case["pre_fail"] = draw(st.integers(1, 3))
    lossmode = draw(st.sampled_from(["none", "none", "one", "one", "multi"]))
    if lossmode == "one":
        case["loss"] = [draw(st.integers(0, max(0, nsegs - 1)))]
    elif lossmode == "multi":
        case["loss"] = sorted(draw(st.sets(st.integers(0, nsegs + 5), min_size=2, max_size=5)))
    return case


def search(ctx):
    thorough = ctx.tier == "thorough"
    # all enumerated families first: they must not depend on what the Hypothesis phases leave of the budget
    ctx.enumerate(enum_undisturbed(), "boundary lengths x block-size sequences x CRC negotiation, undisturbed")
    ctx.enumerate(enum_single_loss(), "every single lost segment position, lengths <= 200 x block sizes")
    ctx.enumerate(enum_two_loss(thorough), "every pair of lost transmitted segments (retransmitted ones included), "
                                           "lengths <= 100 (thorough <= 200) x small block sizes x CRC on/off")
    ctx.enumerate(enum_single_loss_nocrc(), "every single lost segment position without CRC, lengths <= 200")
    ctx.enumerate(enum_single_loss_big(thorough), "every single lost segment position, block sizes 10..127, "
                                                  "lengths 150..2000")
    ctx.enumerate(enum_long(thorough), "lengths 4000..10^4 (+-1 around 10^4 and 7*127*9), undisturbed and one "
                                       "repairable loss")
    # Hypothesis: rounds of (general strategy, nested-loss strategy) so that both get a share of the budget;
    # the quick tier is one round (salt 0: the same 1500 examples as before the nested strategy was added)
    rounds = 10 if thorough else 1
    for r in range(rounds):
        ctx.hypothesis(rand_case(10000 if thorough else 3000), 2500 if thorough else 1500, salt=2 * r)
        ctx.hypothesis(rand_nested_loss(10000), 600, salt=2 * r + 1)
