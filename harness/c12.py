"""C12 - SDO block download delivers exactly the payload or fails visibly.

SUT: BlockDownloadStream (via SdoClient.open(..., 'wb', block_transfer=True)),
CrcXmodem.  Peer: strict RefSdoServer (block download side) with its own
bitwise CRC-16/XMODEM, a generated sequence of sub-block sizes, and an
emulated server time-out (the fault injector tells the model which client
frame it dropped).
"""
import math

from hypothesis import strategies as st

from harness.core import Discrepancy, Outcome
from harness.odutil import build_od
from harness.refsdo import RefSdoServer
from harness.simbus import Hub

PROPERTY = "C12"
LEVEL = "fault_enumeration"
RULE = ("case = (payload length and content, sequence of sub-block sizes 1..127 offered by the server, CRC "
        "requested by client x supported by server, write route: raw stream with a generated chunking / "
        "buffered stream, set of client segment ordinals to drop). Enumerated: every length 1..64 and all "
        "7k+-1 / blksize*7+-1 boundaries undisturbed; every single lost segment position for lengths <= 200 "
        "x block sizes {1,2,3,4,127,mixed}; Hypothesis adds random lengths up to 10^4, random block-size "
        "sequences and multi-loss sets. Oracle: strict reference block server (sequence numbers, c flag, n, "
        "CRC recomputed bitwise, size, reserved bits); undisturbed or single loss of a non-last segment of a "
        "non-final sub-block => normal return and exact payload; otherwise normal return => exact payload. "
        "Non-trivial = >=2 sub-blocks, or a loss, or a block-size change; distinct = canonical JSON.")
ASSUMPTIONS = [
    "a server time-out is emulated: when the dropped frame was the one ending the sub-block the model "
    "acknowledges at once what it has received in sequence",
    "buffered routes only use writes the raw stream's documented contract supports (one write of the whole "
    "payload, or chunks that are multiples of 7 with a buffer that is a multiple of 7)",
]
BUDGET = {"quick": 150, "thorough": 420}
NODE = 2


def payload(n, salt):
    if salt % 4 == 1:
        # mostly zero bytes (whole segments of zeros after non-zero data): an erased / sparse domain
        return bytes((((i * 31 + salt) % 255) + 1) if i % 23 == salt % 23 else 0 for i in range(n))
    if salt % 4 == 3 and n > 9:
        # one zero segment in otherwise dense data
        z = 7 * ((salt // 4) % max(1, n // 7))
        return bytes(0 if z <= i < z + 7 else ((i * 31 + salt * 7 + (i >> 8)) % 255) + 1 for i in range(n))
    return bytes(((i * 31 + salt * 7 + (i >> 8)) % 255) + 1 for i in range(n))


def subblocks(nsegs, blksizes):
    """Undisturbed partition of segment numbers 0..nsegs-1 into sub-blocks."""
    out = []
    a = 0
    i = 0
    while a < nsegs:
        b = blksizes[i % len(blksizes)]
        i += 1
        out.append((a, min(nsegs, a + b) - 1))
        a += b
    return out


def run_case(case) -> Outcome:
    import canopen
    n = case["len"]
    data = bytes(case["data"]) if "data" in case else payload(n, case.get("salt", 0))
    blks = case["blksizes"]
    loss = set(case.get("loss", []))
    hub = Hub()
    srv = RefSdoServer(0x600 + NODE, 0x580 + NODE)
    srv.attach(hub)
    srv.blksizes = list(blks)
    srv.crc_support = case.get("crc_srv", True)
    net, port = hub.attach("client")
    node = canopen.RemoteNode(NODE, build_od([]))
    net.add_node(node)
    for _ in range(case.get("readd", 0)):
        net.add_node(node)          # the same node object registered again: still one SDO response per frame
    node.sdo.RESPONSE_TIMEOUT = 0.01
    if case.get("pre_fail"):
        # an earlier block download through the same client that fails half-way (the server loses
        # every segment from the k-th on and finally nothing comes back); nothing of it may leak into
        # the transfer under test
        pk = case["pre_fail"]
        seen = {"n": 0}

        def pre_flt(fr, h):
            # the server's answers get lost from the pk-th on (pk = 1: already the first acknowledge
            # after the initiate response): the client times out, aborts and gives the transfer up
            if fr.can_id == srv.tx_id:
                seen["n"] += 1
                if seen["n"] > pk:
                    return []
            return [fr]
        hub.filter = pre_flt
        try:
            with node.sdo.open(0x2FFF, 1, "wb", size=2000, block_transfer=True, buffering=0,
                               request_crc_support=True) as fp0:
                _raw_write(fp0, bytes([0xEE]) * 2000, [])
        except Exception:
            pass
        hub.filter = None
        srv._reset()
        srv.errors.clear()
        srv.commits[:] = []
        srv.client_aborts[:] = []
        srv._blk_i = 0
    counter = {"seg": 0, "dropped": 0}

    def flt(fr, h):
        if fr.can_id == srv.rx_id and srv.state == srv.BDL_SUB and fr.data[:1] != b"\x80":
            k = counter["seg"]
            counter["seg"] += 1
            if k in loss:
                counter["dropped"] += 1
                srv.lost_client_frame(fr.data)
                return []
        return [fr]

    hub.filter = flt
    exc = None
    try:
        fp = node.sdo.open(0x2000 + (n & 0xFF), n & 0x7F, "wb", size=n, block_transfer=True,
                           buffering=case["buffering"], request_crc_support=case.get("crc_req", True))
        with fp:
            if case["buffering"] == 0:
                _raw_write(fp, data, case.get("chunks") or [])
            else:
                pos = 0
                for k in case.get("chunks") or []:
                    fp.write(data[pos:pos + k])
                    pos += k
                if pos < n:
                    fp.write(data[pos:])
    except Exception as e:
        exc = e
    D = []
    nsegs = max(1, math.ceil(n / 7))
    parts = subblocks(nsegs, blks)
    dropped = counter["dropped"]
    repairable = False
    if dropped == 1 and len(loss) >= 1:
        k = min(loss)
        for j, (a, b) in enumerate(parts):
            if a <= k <= b:
                repairable = j < len(parts) - 1 and k != b
    committed = [c for c in srv.commits if (c[0], c[1]) == (0x2000 + (n & 0xFF), n & 0x7F)]
    idx, sub = 0x2000 + (n & 0xFF), n & 0x7F
    where = (f"len {n} blksizes {blks[:6]} crc {case.get('crc_req', True)}/{srv.crc_support} buffering "
             f"{case['buffering']} loss {sorted(loss)[:6]}")
    if dropped == 0:
        kind = "undisturbed"
        if exc is not None:
            D.append(Discrepancy("C12/undisturbed/raises", f"{where}: {type(exc).__name__}: {exc}; server "
                                                           f"errors {srv.errors[:2]}"))
        elif srv.errors:
            D.append(Discrepancy(f"C12/undisturbed/frame/{srv.errors[0].kind}", f"{where}: {srv.errors[0]}"))
        elif len(committed) != 1 or committed[0][2] != data:
            D.append(Discrepancy("C12/undisturbed/payload", f"{where}: server committed "
                                 f"{[(c[2][:16].hex(), len(c[2])) for c in committed]} want {len(data)}B"))
        elif srv.client_aborts:
            D.append(Discrepancy("C12/undisturbed/abort", f"{where}: client aborted {srv.client_aborts}"))
    elif repairable:
        kind = "single-loss-repairable"
        if exc is not None:
            D.append(Discrepancy("C12/repairable-loss/raises",
                                 f"{where}: {type(exc).__name__}: {exc}; server errors {srv.errors[:2]}"))
        elif len(committed) != 1 or committed[0][2] != data:
            D.append(Discrepancy("C12/repairable-loss/payload", f"{where}: server committed "
                                 f"{[(c[2][:16].hex(), len(c[2])) for c in committed]} want {len(data)}B"))
    else:
        kind = "other-loss/" + ("returned" if exc is None else "raised")
        if exc is None and (len(committed) != 1 or committed[0][2] != data):
            D.append(Discrepancy("C12/loss/normal-return-without-exact-payload",
                                 f"{where}: returned normally but server committed "
                                 f"{[(c[2][:16].hex(), len(c[2])) for c in committed]} want {len(data)}B"))
    if exc is None and srv.state != srv.IDLE and not D:
        D.append(Discrepancy("C12/unfinished", f"{where}: call returned but server is mid-transfer"))
    nontrivial = len(parts) >= 2 or dropped > 0 or len(set(blks[:len(parts)])) > 1
    return Outcome(nontrivial, f"{kind}/{'multi' if len(parts) > 1 else 'single'}-block/"
                               f"{'crc' if case.get('crc_req', True) and srv.crc_support else 'nocrc'}", D)


def _raw_write(fp, data, chunks):
    pos = 0
    ci = 0
    want = chunks[0] if chunks else len(data)
    guard = 0
    while pos < len(data):
        guard += 1
        if guard > 3 * len(data) + 50:
            raise RuntimeError("raw block write makes no progress")
        end = min(len(data), pos + want)
        k = fp.write(data[pos:end])
        if not k:
            if end == len(data):
                raise RuntimeError("raw block write refused the complete remaining payload")
            want += 1
            continue
        pos += k
        ci += 1
        want = chunks[ci] if ci < len(chunks) else len(data)


# ---- generation --------------------------------------------------------------
BLK_SEQS = [[127], [1], [2], [3], [4], [5, 1, 127, 2], [127, 1], [7, 3], [126, 127]]


def boundary_lengths():
    s = set(range(1, 65))
    for k in range(1, 30):
        s |= {7 * k - 1, 7 * k, 7 * k + 1}
    for b in (1, 2, 3, 4, 5, 7, 126, 127):
        for m in (1, 2, 3):
            s |= {7 * b * m - 1, 7 * b * m, 7 * b * m + 1}
    return sorted(x for x in s if x >= 1)


def enum_undisturbed():
    i = 0
    for n in boundary_lengths():
        for blks in BLK_SEQS:
            if math.ceil(n / 7) / max(1, min(blks)) > 400:
                continue
            for crc_req, crc_srv in ((True, True), (True, False), (False, True), (False, False)):
                i += 1
                route = [(0, []), (0, [7] * 3 + [13, 1, 20]), (1024, []), (7, [7, 14, 7]), (700, [700, 70])][i % 5]
                yield {"len": n, "salt": i % 13, "blksizes": blks, "crc_req": crc_req, "crc_srv": crc_srv,
                       "buffering": route[0], "chunks": route[1], "readd": (0, 0, 0, 1, 0, 2, 0)[i % 7]}
                if i % 9 == 0:
                    yield {"len": n, "salt": i % 13, "blksizes": blks, "crc_req": crc_req, "crc_srv": crc_srv,
                           "buffering": route[0], "chunks": route[1], "pre_fail": 1 + i % 3}


def enum_single_loss():
    for n in list(range(1, 201, 3)) + [6, 7, 8, 13, 14, 15, 20, 21, 22, 28, 29, 35, 49, 50, 56, 57, 63, 199, 200]:
        nsegs = math.ceil(n / 7)
        for blks in ([127], [1], [2], [3], [4], [5, 1, 127, 2], [2, 9]):
            for k in range(nsegs):
                yield {"len": n, "salt": k, "blksizes": blks, "crc_req": True, "crc_srv": (k + n) % 4 != 0,
                       "buffering": 0 if k % 2 else 1024, "chunks": [], "loss": [k]}


@st.composite
def rand_case(draw, max_len):
    n = draw(st.one_of(st.sampled_from(boundary_lengths()), st.integers(1, 300),
                       st.integers(1, int(math.log2(max_len) * 8)).map(lambda e: max(1, min(max_len, int(2 ** (e / 8.0)))))))
    blks = draw(st.lists(st.integers(1, 127), min_size=1, max_size=6))
    nsegs = math.ceil(n / 7)
    if nsegs / min(blks) > 600:
        blks = [b if b > 3 else 127 for b in blks]
    case = {"len": n, "blksizes": blks, "crc_req": draw(st.booleans()), "crc_srv": draw(st.booleans())}
    if n <= 1500 and draw(st.booleans()):
        case["data"] = draw(st.binary(min_size=n, max_size=n))
    else:
        case["salt"] = draw(st.integers(0, 200))
    route = draw(st.sampled_from(["raw", "raw_chunks", "buffered_all", "buffered_7"]))
    if route == "raw":
        case.update(buffering=0, chunks=[])
    elif route == "raw_chunks":
        case.update(buffering=0, chunks=draw(st.lists(st.integers(1, 40), min_size=1, max_size=10)))
    elif route == "buffered_all":
        case.update(buffering=draw(st.sampled_from([2, 7, 100, 700, 1024, 8192])), chunks=[])
    else:
        case.update(buffering=7 * draw(st.integers(1, 200)),
                    chunks=[7 * k for k in draw(st.lists(st.integers(1, 30), min_size=1, max_size=8))])
    if draw(st.integers(0, 5)) == 0:
        case["readd"] = draw(st.integers(1, 2))
    if draw(st.integers(0, 5)) == 0:
        case["pre_fail"] = draw(st.integers(1, 3))
    lossmode = draw(st.sampled_from(["none", "none", "one", "one", "multi"]))
    if lossmode == "one":
        case["loss"] = [draw(st.integers(0, max(0, nsegs - 1)))]
    elif lossmode == "multi":
        case["loss"] = sorted(draw(st.sets(st.integers(0, nsegs + 5), min_size=2, max_size=5)))
    return case


def search(ctx):
    thorough = ctx.tier == "thorough"
    ctx.enumerate(enum_undisturbed(), "boundary lengths x block-size sequences x CRC negotiation, undisturbed")
    ctx.enumerate(enum_single_loss(), "every single lost segment position, lengths <= 200 x block sizes")
    ctx.hypothesis(rand_case(10000 if thorough else 3000), 25000 if thorough else 1500)
