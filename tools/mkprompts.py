#!/venv/bin/python
"""Write the sub-agent prompts of one seeded-change round and create the scratch worktrees.

  tools/mkprompts.py <root dir, e.g. /tmp/mut10> <file with the round's ADDITIONAL GUIDANCE text> [Cxx ...]

For every property: `git -C /repo worktree add --detach <root>/Cxx HEAD` and <root>/Cxx.prompt.txt.  The prompt
holds the property's text (statement, quantifier, why the tests cannot settle it, anchors) and nothing from
/verif - the agent never sees the checks.
"""
import json
import os
import subprocess
import sys

TEMPLATE = """You are helping evaluate a verification effort by playing the role of a developer who introduces a realistic, subtle regression.

The project is the pure-Python CANopen library `canopen` (christiansandberg/canopen). You have your OWN scratch git worktree of it at: {wt}
Work ONLY inside that directory (and /tmp for scratch files, with file names that start with `{tag}_`). Do NOT touch /repo or /verif and do not read anything under /verif.

Python to use: /venv/bin/python (pytest, python-can and hypothesis are installed there). IMPORTANT: the venv has an editable install that points to another checkout, so always make sure YOUR worktree's copy is what is imported: run commands from inside {wt} with `PYTHONPATH={wt}` set, e.g.
  cd {wt} && PYTHONPATH={wt} /venv/bin/python -m pytest -q -p no:cacheprovider
  cd {wt} && PYTHONPATH={wt} /venv/bin/python _mut/m1/demo.py
(you can verify with `python -c "import canopen; print(canopen.__file__)"`). There is no network access.

Here is a semantic property that the library is supposed to satisfy:

----------------------------------------------------------------
{pid}: {title}

STATEMENT: {statement}

QUANTIFIED OVER: {quant}

WHY THE EXISTING TESTS CANNOT SETTLE IT: {why}

ANCHORS (where in the code): {files}; mechanisms: {mech}
----------------------------------------------------------------

YOUR TASK: produce THREE different, independent changes ("m1", "m2" and "m3") to the library source under {wt}/canopen/ such that each change, applied alone to the clean tree:
  1. BREAKS the property above (some input / sequence / fault / configuration in its quantifier domain now violates the statement),
  2. still imports/compiles and the COMPLETE existing test suite still passes unchanged (run the pytest command above; expect "164 passed"). Do not edit anything under test/.
  3. is a REALISTIC mistake a developer could make in a refactoring, optimisation or "fix" (an off-by-one at a boundary, a wrong mask, a dropped reset of some state, a reordered step, a forgotten case, two sites that each look fine alone...). Not sabotage like `if x == 1234: return garbage`, and no new dead code or comments that give it away.
  4. is SUBTLE: it needs something specific to manifest - a particular interleaving, a fault at a particular point, a multi-step sequence of operations, an unusual input (a boundary length/value, an odd width, a rare flag combination), or two cooperating sites - and is NOT exposed at once by ordinary use or by the existing tests. Prefer a different mechanism / different part of the code for each of m1, m2, m3.

ADDITIONAL GUIDANCE FOR THIS ROUND: {guidance}

For each change also write a small DEMONSTRATION program demo.py (plain python script using only the library, python-can and the stdlib; exit code 0 = property holds, non-zero = violated, and print what was observed) that FAILS with your change applied and PASSES on the clean tree. Read the library source (start with README.rst, doc/, canopen/, test/) to understand the real behaviour first; the demo must exercise the library through its public API the way the property describes (for bus traffic you can use two canopen.Network objects connected via python-can's `interface="virtual"` as test/test_local.py does, or call Network.notify / override send_message as test/test_sdo.py does). Keep time-outs short so the demo finishes in seconds.

DELIVERABLES, for k in (1, 2, 3), in {wt}/_mut/m<k>/ :
  - patch.diff : output of `git -C {wt} diff -- canopen` with ONLY change m<k> applied (relative to the clean HEAD; must apply with `git apply` on a clean checkout)
  - demo.py    : the demonstration (helper files it needs go into the same directory)
  - notes.md   : first line `# m<k> - <one-line description of the change>`; then which clause of the property breaks, exactly what is needed for it to manifest (inputs/sequence/fault), and why the existing tests do not notice

PROCEDURE you must follow and report: for each change: apply it; run the full test suite (must be 164 passed); run demo.py (must fail); save patch.diff; then `git -C {wt} checkout -- canopen` to return to the clean tree; run demo.py again (must pass). Make sure every patch is made against the clean tree, not on top of another one. At the end leave the worktree clean except for the _mut/ directory (never commit). If after honest effort you can only produce fewer qualifying changes, deliver those and say so.

Final answer: a short report listing for m1, m2 and m3: the one-line description of the change, the files touched, what it needs to manifest, and the outcome of each verification step (test suite result, demo with change, demo without change).
"""


def main():
    root, gfile = sys.argv[1], sys.argv[2]
    only = sys.argv[3:]
    guidance = open(gfile).read().strip()
    os.makedirs(root, exist_ok=True)
    for line in open("/verif/properties.jsonl"):
        p = json.loads(line)
        pid = p["id"]
        if only and pid not in only:
            continue
        wt = f"{root}/{pid}"
        if not os.path.exists(wt):
            subprocess.run(["git", "-C", "/repo", "worktree", "add", "-q", "--detach", wt, "HEAD"], check=True)
        text = TEMPLATE.format(wt=wt, tag=os.path.basename(root) + "_" + pid, pid=pid, title=p["title"],
                               statement=p["statement"], quant=p["quantifier"]["text"], why=p["why_tests_cant"],
                               files=json.dumps(p["anchors"]["files"]), mech=json.dumps(p["anchors"]["mechanism"]),
                               guidance=guidance)
        open(f"{root}/{pid}.prompt.txt", "w").write(text)
        print(pid, wt)


main()
