#!/venv/bin/python
"""Prompts + worktrees for a round of PROPERTY-NEUTRAL behaviour changes (the other direction of section 7.4).

  tools/mkprompts_neutral.py <root dir, e.g. /tmp/neu4> <file with this round's focus text> [Cxx ...]

Every agent gets all 20 property statements (so that it can keep all of them true), its own worktree and one
property to work next to.  Nothing from /verif is shown.  Results are collected from <root>/Cxx/_neu/nK/.
"""
import json
import os
import subprocess
import sys

HEAD = """You are a maintainer of the pure-Python CANopen library `canopen` (christiansandberg/canopen). You have your OWN scratch git worktree of it at: {wt}
Work ONLY inside that directory (and /tmp for scratch files, names starting with `{tag}_`). Do NOT touch /repo or /verif and do not read anything under /verif.

Python to use: /venv/bin/python (pytest and python-can are installed). IMPORTANT: the venv has an editable install that points to another checkout, so always make sure YOUR worktree's copy is what is imported: run commands from inside {wt} with `PYTHONPATH={wt}` set, e.g.
  cd {wt} && PYTHONPATH={wt} /venv/bin/python -m pytest -q -p no:cacheprovider
There is no network access.

BACKGROUND: the library is supposed to satisfy the following 20 semantic properties (C01..C20). A separate team has written checks for them. We want to find out whether those checks are too strict, i.e. whether they would complain about a legitimate change of behaviour that none of the properties forbids.

----------------------------------------------------------------
{all_props}
----------------------------------------------------------------

YOUR TASK: produce THREE different, independent patches ("n1", "n2", "n3") in the code that property {pid} is about (anchors: {files}; you may touch other library files too) that each CHANGE OBSERVABLE BEHAVIOUR of the library in a way that a maintainer could reasonably want (a new convenience, a different but equally valid choice where the CANopen standards or the API leave freedom, a more helpful error message or log output, an added optional parameter or attribute, a performance shortcut that changes the order or number of internal operations that no property speaks about, stricter validation of arguments that were never valid, a different default for something none of the properties fixes, and so on) and that keep ALL 20 properties above TRUE exactly as they are stated. Read the statements carefully: whatever they pin down (bytes on the wire, frame order, abort codes, which exception type for which situation, values returned, when tasks run, ...) must stay exactly as it is for every input in their domain; whatever they leave open is yours to change. Each patch must keep the complete existing test suite green (expect "164 passed"; do not edit anything under test/). Make each change real, not a pure refactoring. FOR THIS ROUND concentrate on property {pid}: {focus} Here is {pid} again with its quantifier, read it closely:

{pid}: {statement}
QUANTIFIED OVER: {quant}

Avoid mere log-message or error-text changes. Vary the kind across n1, n2, n3.

DELIVERABLES, for k in (1, 2, 3), in {wt}/_neu/n<k>/ :
  - patch.diff : output of `git -C {wt} diff -- canopen` with ONLY change n<k> applied (relative to the clean HEAD; must apply with `git apply` on a clean checkout)
  - notes.md   : first line `# n<k> - <one line: what changes>`; then what behaviour changes (with a tiny example), and for every property that comes near it a sentence why the property still holds as stated

PROCEDURE: for each patch: apply it; run the full test suite (must be 164 passed); save patch.diff; then `git -C {wt} checkout -- canopen`. Make every patch against the clean tree. Leave the worktree clean except for the _neu/ directory (never commit).

Final answer: a short report (under 250 words): per patch one line what changes and why no property is touched, and the test-suite result.
"""


def main():
    root, ffile = sys.argv[1], sys.argv[2]
    only = sys.argv[3:]
    focus = open(ffile).read().strip()
    props = [json.loads(line) for line in open("/verif/properties.jsonl")]
    all_props = "\n\n".join(f"{p['id']} - {p['title']}\n{p['statement']}" for p in props)
    os.makedirs(root, exist_ok=True)
    for p in props:
        pid = p["id"]
        if only and pid not in only:
            continue
        wt = f"{root}/{pid}"
        if not os.path.exists(wt):
            subprocess.run(["git", "-C", "/repo", "worktree", "add", "-q", "--detach", wt, "HEAD"], check=True)
        text = HEAD.format(wt=wt, tag=os.path.basename(root) + "_" + pid, all_props=all_props, pid=pid,
                           files=", ".join(p["anchors"]["files"]), focus=focus.replace("{pid}", pid),
                           statement=p["statement"], quant=p["quantifier"]["text"])
        open(f"{root}/{pid}.prompt.txt", "w").write(text)
        print(pid, wt)


main()
