#!/usr/bin/env python3
"""Regenerate /verif/MANIFEST.json from the table below.

A property is claimed when it is listed in READY; every other property goes
to not_applicable with the stated reason.
"""
import json
import os
import sys

VERIF = os.path.dirname(os.path.dirname(os.path.abspath(__file__)))

READY = set((sys.argv[1].split(",") if len(sys.argv) > 1 else []))

CHECKS = {
    "C01": ("exploration",
            "every payload length 0..64 enumerated over every client route (download, open with every buffering "
            "class and chunking, SdoVariable, text mode) and every CiA 301 upload style, plus Hypothesis "
            "histories of 1..6 back-to-back transfers with boundary lengths up to 10^4, against a strict "
            "reference SDO server that validates every request frame and holds the bytes",
            "trusts the reference server in harness/refsdo.py (written from CiA 301) and inline bus delivery",
            "property-based testing: exhaustive small lengths + Hypothesis histories against a strict reference SDO server"),
    "C02": ("exploration",
            "generated object dictionaries and request histories (valid transfers, interrupted transfers, junk "
            "and stray frames, client aborts) on a fresh LocalNode, driven frame by frame by a reference client "
            "that validates every response; dict model of the store with the source-precedence rule",
            "trusts the reference client/model; entries a junk frame may legitimately have written are tainted",
            "model-based property testing: Hypothesis histories + exhaustive first-frame/length sweeps with a reference SDO client"),
    "C03": ("exploration",
            "typed round trips for every data type (all 8/16-bit values in the thorough tier), by index/name/"
            "dotted name, with inline delivery, a harness-owned schedule of 2..8 client threads interleaved at "
            "every bus frame, a dispatcher thread with unrelated traffic, and python-can's virtual bus",
            "thread interleavings are sampled (deterministic baton schedules drawn by Hypothesis), not enumerated",
            "property-based testing: round-trip oracle with an independent codec under generated schedules"),
    "C04": ("exploration",
            "exhaustive over all values and byte patterns of the 8/16-bit types and all BMP characters, boundary "
            "enumeration and Hypothesis random search for wider types, against an independent codec",
            "trusts Python's int.to_bytes and the hand-written IEEE 754 decoder in harness/refcodec.py",
            "property-based testing: exhaustive enumeration + Hypothesis against an independent reference codec"),
    "C05": ("exploration",
            "generated PDO layouts (every offset 0..63, sub-byte fields, multi-byte objects off byte boundaries, "
            "REAL at bit offsets) x field values (all 2^len values for fields <= 12 bits) x initial frame contents "
            "against a big-integer bit-field model of the frame",
            "trusts Python big-integer arithmetic",
            "property-based testing: Hypothesis layouts + exhaustive small fields against a bit-field model"),
    "C06": ("exploration",
            "exhaustive matrix numeric types x payload lengths 0..9 x access types x transfer styles x placement, "
            "missing index/sub-index, toggle errors, unknown/unsupported commands on a fresh node; the same refusals "
            "through the client API comparing the raised code with the abort frame on the wire; scripted peer "
            "aborting with documented/boundary/random codes at every protocol step",
            "when several refusal conditions apply any of their CiA 301 codes is accepted",
            "model-based property testing: enumerated refusal matrix + Hypothesis histories with reference client/server"),
    "C07": ("fault_enumeration",
            "every transfer kind (expedited/segmented/block, both directions) x boundary payload length x response "
            "ordinal x disturbance kind (drop, abort, toggle flip, wrong command, wrong multiplexer, duplicate now / "
            "later, stale frame before / between / after), one disturbance per transfer followed by an undisturbed "
            "transfer on the same client and server, against reference servers and the library's own server",
            "stale/duplicated frames indistinguishable by protocol from the expected response are excluded and counted",
            "fault injection enumeration + Hypothesis on a simulated bus with outcome oracle 'exact data or SdoError'"),
    "C08": ("exploration",
            "EDS/DCF texts rendered by an independent writer from generated dictionary models with drawn spelling "
            "choices; every attribute the property names compared with the model; all lookup forms",
            "trusts the independent writer/model in harness/edsmodel.py",
            "property-based testing: generated documents from an independent writer, attribute-wise model comparison"),
    "C09": ("exploration",
            "generated PDO configurations x device pre-states against a strict CiA 301 PDO-configuration device model "
            "that refuses out-of-order writes and logs every write; trace predicate from the property; read-back on "
            "a fresh node and subscription check; 1..4 PDOs per dictionary (both directions, ARRAY members, shorter bit lengths) and earlier configurations on the same node object",
            "trusts the device model in harness/c09.py; invalidate-and-change in one write is accepted",
            "model-based property testing: Hypothesis configurations against a strict reference device"),
    "C10": ("exploration",
            "stateful histories of subscribe/unsubscribe/notify/node add-replace-remove against a reference multimap; "
            "exhaustive 11-bit ids and sampled 29-bit ids for the frame-format rule and the scanner",
            "node handlers are observed through their effects",
            "stateful property testing (Hypothesis op lists) against a reference multimap + exhaustive id sweeps"),
    "C11": ("exploration",
            "exhaustive NMT command sequences over defined/undefined command specifiers x targets, all heartbeat bytes, "
            "all state names, master and slave on one simulated bus compared with a CiA 301 table model after every step; "
            "waits driven by a feeder thread",
            "wait_* time-outs are milliseconds; only gross misbehaviour of waits is decided",
            "exhaustive enumeration + Hypothesis against a CiA 301 NMT table model"),
    "C12": ("fault_enumeration",
            "payload lengths incl. 7k+-1 and block boundaries, changing block-size sequences, CRC on/off, write routes; "
            "every single lost segment position (enumerated) and seeded multi-loss, against a strict reference block server "
            "with its own CRC implementation",
            "server time-outs are emulated by the harness (it can see the wire)",
            "fault enumeration + Hypothesis against a strict reference block-download server"),
    "C13": ("fault_enumeration",
            "value lengths incl. segment/block boundaries, CRC on/off, size indicated or not, read routes; every single "
            "dropped / bit-flipped segment, wrong CRC, wrong end frame, against a reference block-upload server",
            "without CRC a bit flip is undetectable by any client; those runs are informational only",
            "fault enumeration + Hypothesis against a reference block-upload server; oracle 'exact data or SdoError'"),
    "C14": ("exploration",
            "generated dictionaries (code-built and text-imported) exported as EDS/DCF to file, stream and stdout and "
            "re-imported; attribute-wise comparison; destinations give the same document",
            "floats compared exactly; [FileInfo] not compared",
            "property-based testing: round-trip and metamorphic (destination) relations over generated dictionaries"),
    "C15": ("exploration",
            "producer and consumer nodes on one simulated bus with generated layouts, histories of write/transmit/raw "
            "frame/reconfigure/callback/remote-request steps, inline and second-thread delivery during wait_for_reception",
            "thread timing is made deterministic by a feeder that redelivers until the waiter returns",
            "stateful property testing against a per-map reception model and the bit-field model"),
    "C16": ("exploration",
            "histories of EMCY frames, callbacks, resets, producer sends and waits against a list model; exhaustive 65536 "
            "codes for the description table",
            "wait() time-outs are milliseconds",
            "stateful property testing against a list model + exhaustive code sweep"),
    "C17": ("exploration",
            "histories of start/restart/stop/update calls over SYNC, PDO, heartbeat and node guarding on buses with and "
            "without modify_data; the multiset of live tasks compared with a model after every step",
            "cyclic tasks are recording fakes (no timing)",
            "stateful property testing against a live-task model on a recording bus"),
    "C18": ("exploration",
            "fast scan against an independent CiA 305 slave for all single-bit identities, all-zero/all-one, random; "
            "all node ids / bit timings / error codes / wrong specifier / silence for the other services",
            "time.sleep inside canopen.lss is replaced by a no-op in the harness process",
            "enumeration + Hypothesis against an independent LSS slave model"),
    "C19": ("exploration",
            "all 65536 statuswords; all 8x8 (state,target) pairs x automatic-transition delay x transport x extra bits "
            "against an independent CiA 402 drive model with a safety predicate on its trace; all modes x support masks",
            "'finitely many steps' is checked within canopen's own time-outs",
            "exhaustive enumeration against an independent CiA 402 drive model"),
    "C20": ("exploration",
            "factors over magnitudes/signs with exact rational arithmetic, description tables, every contiguous bit range "
            "within 32 bits in four spellings, over LocalNode, RemoteNode-over-bus and PDO carriers",
            "ties in rounding may go either way",
            "property-based testing: exhaustive bit ranges + Hypothesis with exact rational / mask arithmetic"),
}


def main():
    props = [json.loads(l)["id"] for l in open(os.path.join(VERIF, "properties.jsonl"))]
    ready = READY or {p for p in props if os.path.exists(os.path.join(VERIF, "harness", p.lower() + ".py"))}
    m = {
        "version": 1,
        "setup_cmd": "/venv/bin/python -c \"import hypothesis, can\" || /venv/bin/pip install --no-index "
                     "--find-links /opt/veriftools/wheels hypothesis",
        "hooks": {
            "guard": "CANOPEN_VERIF",
            "enable": "no source hooks are needed: every observation point is public API (Network(bus=...), "
                      "Network.notify, class-level time-outs); checks import canopen straight from /repo's "
                      "working tree (VERIF_REPO overrides the path for sensitivity runs)",
            "baseline_off_cmd": "cd /repo && /venv/bin/python -m pytest -q -p no:cacheprovider --timeout=900",
            "source_commits": [],
            "add_only": True,
        },
        "engines": [{
            "name": "harness", "path": "harness/", "serves_properties": sorted(ready),
            "kind_free_text": "Hypothesis-driven and exhaustive generated-input search against independent "
                              "reference models on a simulated CAN bus; python -m harness.check <id> --tier "
                              "quick|thorough; python -m harness.replay <file>",
        }],
        "checks": [],
        "not_applicable": [],
        "notes": "see DESIGN.md; known_findings.json lists fixed defects (fix: commits in /repo) and known findings",
    }
    for p in props:
        if p in ready:
            level, text, note, tech = CHECKS[p]
            m["checks"].append({
                "property_id": p,
                "quick_cmd": f"PYTHONHASHSEED=0 /venv/bin/python -m harness.check {p} --tier quick",
                "thorough_cmd": f"PYTHONHASHSEED=0 /venv/bin/python -m harness.check {p} --tier thorough",
                "evidence_file": f"evidence/{p}.json",
                "replay_cmd_template": "/venv/bin/python -m harness.replay {path}",
                "engine": "harness",
                "level_claimed": {"category": level, "text": text, "design_ref": f"DESIGN.md {p}"},
                "level_note": note,
                "technique": tech,
            })
        else:
            m["not_applicable"].append({"property_id": p, "reason": "check still under construction in this "
                                        "session; the technique applies (see DESIGN.md) and it will be claimed once built"})
    with open(os.path.join(VERIF, "MANIFEST.json"), "w") as f:
        json.dump(m, f, indent=1)
    print("claimed:", sorted(ready))


main()
