#!/venv/bin/python
"""Confirm sub-agent mutants independently and file them under /verif/seeded/.

For every /tmp/mut/Cxx/_mut/mK: in a fresh scratch worktree of /repo HEAD
  1. demo passes on the clean tree
  2. patch applies; full test suite still passes (164)
  3. demo fails with the patch
Then copy patch.diff, demo.py, notes.md and write meta.json.
"""
import json, os, re, shutil, subprocess, sys

def sh(cmd, cwd=None, env=None, timeout=900):
    r = subprocess.run(cmd, shell=True, cwd=cwd, env=env, capture_output=True, text=True, timeout=timeout)
    return r.returncode, (r.stdout + r.stderr)

def main():
    args = sys.argv[1:]
    src_root, tag = "/tmp/mut", ""
    if args and args[0] == "--round2":
        src_root, tag = "/tmp/mut2", "r2"
        args = args[1:]
    elif args and args[0] == "--round3":
        src_root, tag = "/tmp/mut3", "r3"
        args = args[1:]
    elif args and args[0] == "--round4":
        src_root, tag = "/tmp/mut4", "r4"
        args = args[1:]
    elif args and args[0] == "--round5":
        src_root, tag = "/tmp/mut5", "r5"
        args = args[1:]
    elif args and args[0] == "--round6":
        src_root, tag = "/tmp/mut6", "r6"
        args = args[1:]
    elif args and args[0] == "--round7":
        src_root, tag = "/tmp/mut7", "r7"
        args = args[1:]
    elif args and args[0] == "--round8":
        src_root, tag = "/tmp/mut8", "r8"
        args = args[1:]
    elif args and args[0] == "--round9":
        src_root, tag = "/tmp/mut9", "r9"
        args = args[1:]
    elif args and args[0] == "--round10":
        src_root, tag = "/tmp/mut10", "r10"
        args = args[1:]
    m = re.fullmatch(r"--round(\d+)", args[0]) if args else None
    if m and not tag:
        src_root, tag = f"/tmp/mut{m.group(1)}", f"r{m.group(1)}"
        args = args[1:]
    only = args
    head = sh("git -C /repo rev-parse --short HEAD")[1].strip()
    for pid in sorted(os.listdir(src_root)):
        if not re.fullmatch(r"C\d\d", pid):
            continue
        for mk in ("m1", "m2", "m3"):
            src = f"{src_root}/{pid}/_mut/{mk}"
            name = f"{pid}-{tag}{mk}"
            if only and name not in only and pid not in only:
                continue
            if not os.path.exists(f"{src}/patch.diff"):
                print(name, "NO-PATCH"); continue
            wt = f"/tmp/confirm-{name}"
            sh(f"git -C /repo worktree remove --force {wt}")
            rc, out = sh(f"git -C /repo worktree add -q --detach {wt} HEAD")
            try:
                env = dict(os.environ, PYTHONPATH=wt)
                shutil.copytree(src, f"{wt}/_mut/{mk}")
                # demos often locate test/sample.eds relative to themselves
                demo = f"_mut/{mk}/demo.py"
                rc_clean, out_clean = sh(f"timeout 300 /venv/bin/python {demo}", cwd=wt, env=env)
                rc_apply, out_apply = sh(f"git apply {src}/patch.diff", cwd=wt)
                meta = {"property": pid, "mutant": mk, "confirmed_against": head}
                if rc_apply:
                    meta["status"] = "patch-does-not-apply-on-current-HEAD"
                    print(name, "PATCH-DOES-NOT-APPLY"); 
                else:
                    rc_t, out_t = sh("timeout 900 /venv/bin/python -m pytest -q -p no:cacheprovider -x 2>&1 | tail -3", cwd=wt, env=env)
                    passed = re.search(r"(\d+) passed", out_t)
                    failed = re.search(r"(\d+) failed", out_t)
                    if failed:
                        # the suite has timing-dependent tests that fail now and then on a loaded machine
                        rc_t, out_t = sh("timeout 900 /venv/bin/python -m pytest -q -p no:cacheprovider 2>&1 | tail -3", cwd=wt, env=env)
                        passed = re.search(r"(\d+) passed", out_t)
                        failed = re.search(r"(\d+) failed", out_t)
                    rc_mut, out_mut = sh(f"timeout 300 /venv/bin/python {demo}", cwd=wt, env=env)
                    ok = rc_clean == 0 and rc_mut != 0 and passed and int(passed.group(1)) == 164 and not failed
                    meta.update(status="confirmed" if ok else "NOT-confirmed",
                                demo_clean_rc=rc_clean, demo_mutant_rc=rc_mut,
                                suite=out_t.strip().splitlines()[-1] if out_t.strip() else "")
                    print(name, meta["status"], f"clean_rc={rc_clean} mutant_rc={rc_mut}", meta["suite"])
                notes = open(f"{src}/notes.md").read() if os.path.exists(f"{src}/notes.md") else ""
                meta["needs_to_manifest"] = notes[:3000]
                meta["ran"] = [f"git worktree add {wt} HEAD", f"python {demo} (clean tree) -> rc {rc_clean}",
                               "git apply patch.diff", "python -m pytest -q (full suite)",
                               f"python {demo} (with patch)"]
                dst = f"/verif/seeded/{name}"
                os.makedirs(dst, exist_ok=True)
                for f in sorted(os.listdir(src)):
                    # patch, demonstration, notes and whatever helper module the demonstration imports
                    if os.path.isfile(f"{src}/{f}") and (f.endswith((".py", ".diff", ".md", ".eds")) and f != "meta.json"):
                        shutil.copy(f"{src}/{f}", f"{dst}/{f}")
                json.dump(meta, open(f"{dst}/meta.json", "w"), indent=1)
            finally:
                sh(f"git -C /repo worktree remove --force {wt}")
                shutil.rmtree(wt, ignore_errors=True)

main()
