#!/venv/bin/python
"""Copy the patches of a property-neutral round into /verif/benign/<prefix><nn>-n<k>/.

  tools/collect_neutral.py /tmp/neu4 PD [Cxx ...]

patch.diff + notes.md are copied, meta.json gets the property the agent worked next to and the first line of
its notes.  tools/run_benign.py then applies each one, runs the repository's suite and all 20 quick checks.
"""
import json
import os
import re
import shutil
import sys

root, prefix = sys.argv[1], sys.argv[2]
only = sys.argv[3:]
for pid in sorted(os.listdir(root)):
    if not re.fullmatch(r"C\d\d", pid) or (only and pid not in only):
        continue
    for k in (1, 2, 3):
        src = f"{root}/{pid}/_neu/n{k}"
        if not os.path.exists(f"{src}/patch.diff"):
            print(pid, k, "no patch")
            continue
        dst = f"/verif/benign/{prefix}{pid[1:]}-n{k}"
        os.makedirs(dst, exist_ok=True)
        shutil.copy(f"{src}/patch.diff", f"{dst}/patch.diff")
        notes = open(f"{src}/notes.md").read() if os.path.exists(f"{src}/notes.md") else ""
        open(f"{dst}/notes.md", "w").write(notes)
        json.dump({"next_to": pid, "what": notes.strip().splitlines()[0][:300] if notes.strip() else ""},
                  open(f"{dst}/meta.json", "w"), indent=1)
        print(dst)
