#!/usr/bin/env python3
"""Print the markdown table of seeded changes from /verif/seeded/*/meta.json."""
import json, os, re
S = "/verif/seeded"
print("| id | breaks | what the change is / what it needs to manifest | verdict of the property's quick check |")
print("|----|--------|--------------------------------------------------|----------------------------------------|")
for n in sorted(os.listdir(S)):
    mp = os.path.join(S, n, "meta.json")
    if not os.path.exists(mp):
        continue
    m = json.load(open(mp))
    notes = m.get("needs_to_manifest", "")
    # first meaningful line of the sub-agent's notes
    line = ""
    for l in notes.splitlines():
        l = l.strip(" #*-")
        if len(l) > 40:
            line = l
            break
    line = re.sub(r"\s+", " ", line)[:230].replace("|", "/")
    v = m.get("verdict", "?")
    if m.get("signature"):
        v += f" (`{m['signature']}`)"
    if "rebased" in m.get("status", ""):
        v += "; patch rebased after a fix"
    if "superseded" in m.get("status", ""):
        v = "n/a - " + m["status"]
    print(f"| {n} | {m.get('property')} | {line} | {v} |")
