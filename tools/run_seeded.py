#!/venv/bin/python
"""Run the quick check of each seeded mutant's property against that mutant.

  tools/run_seeded.py [Cxx ...]      (default: all under /verif/seeded)

For every /verif/seeded/<Cxx-mK>/patch.diff: copy /repo to a scratch dir,
apply the patch, run `harness.check Cxx --tier quick` with VERIF_REPO pointing
at the copy, record the verdict in meta.json ("detected", "signature") and
print a table.  Several mutants run in parallel.
"""
import json
import os
import re
import shutil
import subprocess
import sys
import tempfile
from concurrent.futures import ThreadPoolExecutor

SEEDED = "/verif/seeded"


def one(name):
    d = os.path.join(SEEDED, name)
    patch = os.path.join(d, "patch.diff")
    meta_p = os.path.join(d, "meta.json")
    meta = json.load(open(meta_p)) if os.path.exists(meta_p) else {}
    prop = meta.get("check_with") or name.split("-")[0]
    tmp = tempfile.mkdtemp(prefix="canopen-seeded-")
    try:
        dst = os.path.join(tmp, "repo")
        shutil.copytree("/repo", dst, ignore=shutil.ignore_patterns(".git", "__pycache__", "*.egg-info"))
        r = subprocess.run(["patch", "-p1", "-s", "-d", dst, "-i", patch], capture_output=True, text=True)
        if r.returncode:
            meta.update(detected=None, verdict="patch does not apply to the current /repo (superseded by a fix)")
            json.dump(meta, open(meta_p, "w"), indent=1)
            return name, prop, "N/A", "patch does not apply"
        env = dict(os.environ, VERIF_REPO=dst, VERIF_SCRATCH=f"seeded-{name}", PYTHONHASHSEED="0")
        r = subprocess.run([sys.executable, "-m", "harness.check", prop, "--tier", "quick"], cwd="/verif",
                           env=env, capture_output=True, text=True, timeout=1500)
        out = r.stdout + r.stderr
        sig = ""
        m = re.search(r"VIOLATION property=\S+ replay=\S+\n\s+(\S+):", out)
        if m:
            sig = m.group(1)
        verdict = {0: "MISSED", 1: "CAUGHT"}.get(r.returncode, f"EXIT{r.returncode}")
        meta.update(detected=(r.returncode == 1), verdict=verdict, signature=sig,
                    checked_with=f"harness.check {prop} --tier quick")
        json.dump(meta, open(meta_p, "w"), indent=1)
        return name, prop, verdict, sig or out.strip().splitlines()[-1][:100]
    finally:
        shutil.rmtree(tmp, ignore_errors=True)
        shutil.rmtree(os.path.join("/verif/.work", f"scratch-seeded-{name}"), ignore_errors=True)


def main():
    want = sys.argv[1:]
    names = sorted(n for n in os.listdir(SEEDED) if os.path.exists(os.path.join(SEEDED, n, "patch.diff")))
    if want:
        names = [n for n in names if n in want or n.split("-")[0] in want]
    with ThreadPoolExecutor(max_workers=int(os.environ.get("SEEDED_JOBS", "6"))) as ex:
        for name, prop, verdict, info in ex.map(one, names):
            print(f"{name:10s} {prop:4s} {verdict:8s} {info}")


main()
