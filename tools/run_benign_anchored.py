#!/venv/bin/python
"""Run every benign / property-neutral patch against the quick checks of the properties it can reach.

  tools/run_benign_anchored.py [--jobs N] [names...]

A patch reaches a property when it touches a file the property is anchored in (properties.jsonl), plus -
for the PCxx-nK patches - the property it was written next to.  (tools/run_benign.py runs all 20 checks per
patch; this is the affordable variant for a re-run after many checks changed.)  Prints one line per
(patch, property) that is not quiet and a summary; verdicts go to benign/<id>/meta.json under "anchored".
"""
import json, os, re, shutil, subprocess, sys, tempfile
from concurrent.futures import ThreadPoolExecutor

B = "/verif/benign"
ANCH = {}
for line in open("/verif/properties.jsonl"):
    p = json.loads(line)
    ANCH[p["id"]] = set(p["anchors"]["files"])
# files every network-level check goes through although its property is not anchored there
EXTRA = {"canopen/network.py": {"C01", "C02", "C03", "C06", "C07", "C09", "C11", "C12", "C13", "C15", "C16", "C17", "C18", "C19", "C20"},
         "canopen/variable.py": {"C03", "C05", "C15", "C19", "C20"},
         "canopen/objectdictionary/__init__.py": {"C02", "C03", "C04", "C05", "C06", "C08", "C09", "C14", "C20"},
         "canopen/sdo/base.py": {"C01", "C03", "C09", "C19", "C20"},
         "canopen/pdo/base.py": {"C05", "C09", "C15", "C17", "C19", "C20"}}


def props_for(name):
    d = open(os.path.join(B, name, "patch.diff")).read()
    files = set(re.findall(r"^\+\+\+ b/(\S+)", d, re.M))
    out = set()
    for pid, fs in ANCH.items():
        if fs & files:
            out.add(pid)
    for f in files:
        out |= EXTRA.get(f, set())
    m = re.match(r"PC(\d\d)-", name)
    if m:
        out.add("C" + m.group(1))
    return sorted(out), bool(d.strip())


def run(job):
    name, prop = job
    tmp = tempfile.mkdtemp(prefix="canopen-bena-")
    try:
        dst = os.path.join(tmp, "repo")
        shutil.copytree("/repo", dst, ignore=shutil.ignore_patterns(".git", "__pycache__", "*.egg-info"))
        r = subprocess.run(["git", "apply", "--unsafe-paths", f"--directory={dst}", os.path.join(B, name, "patch.diff")],
                           cwd="/", capture_output=True, text=True)
        if r.returncode:
            return name, prop, "NOAPPLY", r.stderr[-150:]
        env = dict(os.environ, VERIF_REPO=dst, VERIF_SCRATCH=f"bena-{name}-{prop}", PYTHONHASHSEED="0")
        r = subprocess.run([sys.executable, "-m", "harness.check", prop, "--tier", "quick"], cwd="/verif", env=env,
                           capture_output=True, text=True, timeout=2400)
        out = r.stdout + r.stderr
        v = "QUIET" if r.returncode == 0 and "VIOLATION" not in out else f"ALARM(exit {r.returncode})"
        info = ""
        m = re.search(r"VIOLATION property=\S+ replay=\S+\n\s+(.*)", out)
        if m:
            info = m.group(1)[:300]
        elif r.returncode:
            info = out[-300:]
        return name, prop, v, info
    finally:
        shutil.rmtree(tmp, ignore_errors=True)
        shutil.rmtree(os.path.join("/verif/.work", f"scratch-bena-{name}-{prop}"), ignore_errors=True)


def main():
    args = sys.argv[1:]
    jobs = 14
    if "--jobs" in args:
        i = args.index("--jobs"); jobs = int(args[i + 1]); del args[i:i + 2]
    names = sorted(n for n in os.listdir(B) if os.path.exists(os.path.join(B, n, "patch.diff")))
    if args:
        names = [n for n in names if n in args]
    work = []
    for n in names:
        ps, nonempty = props_for(n)
        if not nonempty:
            print(f"{n}: retired (empty patch)"); continue
        work += [(n, p) for p in ps]
    print(f"{len(names)} patches, {len(work)} (patch, property) runs", flush=True)
    res = {}
    bad = 0
    with ThreadPoolExecutor(max_workers=jobs) as ex:
        for name, prop, v, info in ex.map(run, work):
            res.setdefault(name, {})[prop] = v
            if v != "QUIET":
                bad += 1
                print(f"{name} {prop} {v} {info}", flush=True)
    for name, r in res.items():
        mp = os.path.join(B, name, "meta.json")
        m = json.load(open(mp)) if os.path.exists(mp) else {}
        m["anchored"] = r
        json.dump(m, open(mp, "w"), indent=1)
    print(f"done: {len(work)} runs, {bad} not quiet")


main()
