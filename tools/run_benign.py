#!/venv/bin/python
"""Behaviour-preserving changes (benign/<id>/patch.diff) must leave every check quiet.

  tools/run_benign.py [names...] [--jobs N] [--props C01,C03] [--no-suite]

For every patch: scratch copy of /repo, apply, run the repository's test suite
once (must stay green), then all 20 quick checks with VERIF_REPO pointing at
the copy.  Any VIOLATION line or non-zero exit is printed; the verdict per
patch goes into benign/<id>/meta.json.  Nothing under /repo or evidence/ is
touched (VERIF_SCRATCH).
"""
import json
import os
import shutil
import subprocess
import sys
import tempfile
from concurrent.futures import ThreadPoolExecutor

B = "/verif/benign"
PROPS = [f"C{k:02d}" for k in range(1, 21)]


def run_one(name):
    d = os.path.join(B, name)
    tmp = tempfile.mkdtemp(prefix="canopen-ben-")
    out = {"name": name, "alarms": [], "suite": None}
    try:
        dst = os.path.join(tmp, "repo")
        shutil.copytree("/repo", dst, ignore=shutil.ignore_patterns(".git", "__pycache__", "*.egg-info"))
        r = subprocess.run(["git", "apply", "--unsafe-paths", f"--directory={dst}", os.path.join(d, "patch.diff")],
                           cwd="/", capture_output=True, text=True)
        if r.returncode:
            out["suite"] = "patch does not apply: " + r.stderr[-200:]
            return out
        if SUITE:
            t = subprocess.run("timeout 900 /venv/bin/python -m pytest -q -p no:cacheprovider 2>&1 | tail -1",
                               shell=True, cwd=dst, env=dict(os.environ, PYTHONPATH=dst), capture_output=True,
                               text=True)
            out["suite"] = t.stdout.strip()
        for p in PROPS:
            env = dict(os.environ, VERIF_REPO=dst, VERIF_SCRATCH=f"ben-{name}", PYTHONHASHSEED="0",
                       PYTHONDONTWRITEBYTECODE="1")
            c = subprocess.run([sys.executable, "-m", "harness.check", p, "--tier", "quick"], cwd="/verif", env=env,
                               capture_output=True, text=True)
            if c.returncode != 0 or "VIOLATION" in c.stdout:
                lines = [l for l in (c.stdout + c.stderr).splitlines() if l.strip()]
                detail = next((l.strip() for l in lines if l.startswith("  ")), lines[-1] if lines else "")
                out["alarms"].append({"property": p, "exit": c.returncode, "detail": detail[:400]})
    finally:
        shutil.rmtree(tmp, ignore_errors=True)
        shutil.rmtree(f"/verif/.work/scratch-ben-{name}", ignore_errors=True)
    meta_p = os.path.join(d, "meta.json")
    meta = json.load(open(meta_p)) if os.path.exists(meta_p) else {}
    if len(PROPS) < 20 or not SUITE:
        # partial re-run (after some checks were strengthened): keep the earlier record for the other checks
        old = [a for a in meta.get("alarms", []) if a["property"] not in PROPS]
        out["alarms"] = old + out["alarms"]
        out["suite"] = out["suite"] or meta.get("suite")
    meta.update(suite=out["suite"], alarms=out["alarms"], verdict="QUIET" if not out["alarms"] else "ALARM")
    json.dump(meta, open(meta_p, "w"), indent=1)
    return out


SUITE = True


def main():
    global PROPS, SUITE
    args = sys.argv[1:]
    jobs = 5
    if "--no-suite" in args:
        args.remove("--no-suite")
        SUITE = False
    if "--props" in args:
        i = args.index("--props")
        PROPS = args[i + 1].split(",")
        del args[i:i + 2]
    if "--jobs" in args:
        i = args.index("--jobs")
        jobs = int(args[i + 1])
        del args[i:i + 2]
    names = sorted(n for n in os.listdir(B) if os.path.exists(os.path.join(B, n, "patch.diff")))
    if args:
        names = [n for n in names if n in args or n.split("-")[0] in args]
    with ThreadPoolExecutor(max_workers=jobs) as ex:
        for out in ex.map(run_one, names):
            v = "QUIET" if not out["alarms"] else "ALARM " + ", ".join(a["property"] for a in out["alarms"])
            print(f"{out['name']:10} suite[{out['suite']}]  {v}", flush=True)
            for a in out["alarms"]:
                print(f"      {a['property']} exit {a['exit']}: {a['detail']}", flush=True)


main()
