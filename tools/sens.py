#!/venv/bin/python
"""Sensitivity (mutation) runs.

  tools/sens.py <PROP> <file> <old> <new> [tier]      single textual mutation
  tools/sens.py --patch <PROP> <patch.diff> [tier]    apply a patch file

The mutation is applied to a scratch copy of /repo under /tmp (removed
afterwards); the check runs with VERIF_REPO pointing at it and VERIF_SCRATCH
set so real evidence/replays are untouched.  Prints CAUGHT / MISSED.
"""
import os, shutil, subprocess, sys, tempfile

def main():
    args = sys.argv[1:]
    patch = None
    if args[0] == "--patch":
        prop, patch = args[1], os.path.abspath(args[2])
        tier = args[3] if len(args) > 3 else "quick"
    else:
        prop, rel, old, new = args[:4]
        tier = args[4] if len(args) > 4 else "quick"
    tmp = tempfile.mkdtemp(prefix="canopen-mut-")
    try:
        dst = os.path.join(tmp, "repo")
        shutil.copytree("/repo", dst, ignore=shutil.ignore_patterns(".git", "__pycache__", "*.egg-info"))
        if patch:
            r = subprocess.run(["git", "apply", "--unsafe-paths", f"--directory={dst}", patch], cwd="/", capture_output=True, text=True)
            if r.returncode:
                r = subprocess.run(["patch", "-p1", "-d", dst, "-i", patch], capture_output=True, text=True)
                if r.returncode:
                    print("PATCH-FAILED", r.stdout, r.stderr); sys.exit(3)
        else:
            p = os.path.join(dst, rel)
            s = open(p).read()
            if s.count(old) < 1:
                print(f"MUTATION-NOT-APPLICABLE: {old!r} not in {rel}"); sys.exit(3)
            open(p, "w").write(s.replace(old, new, 1))
        env = dict(os.environ, VERIF_REPO=dst, VERIF_SCRATCH=f"{os.getpid()}", PYTHONHASHSEED="0")
        r = subprocess.run([sys.executable, "-m", "harness.check", prop, "--tier", tier], cwd="/verif", env=env, capture_output=True, text=True)
        out = r.stdout + r.stderr
        lines = [l for l in out.splitlines() if l.startswith(("VIOLATION", "  ", "HARNESS", "KNOWN")) or "evaluations=" in l]
        verdict = {0: "MISSED", 1: "CAUGHT"}.get(r.returncode, f"EXIT{r.returncode}")
        print(verdict, prop, (patch or f"{rel}: {old!r} -> {new!r}"))
        for l in lines[:6]:
            print("   ", l[:300])
        if r.returncode not in (0, 1):
            print(out[-1500:])
    finally:
        shutil.rmtree(tmp, ignore_errors=True)
        shutil.rmtree(os.path.join("/verif/.work", f"scratch-{os.getpid()}"), ignore_errors=True)

main()
