#!/venv/bin/python
"""Automatic mutation sweep: which single-site mutants of /repo/canopen survive
the quick checks of the properties anchored in the mutated file?

  tools/automutate.py [--files a.py,b.py] [--workers 14] [--max N] [--out .work/mutants.jsonl]

Mutants are generated from the AST (comparison / arithmetic / boolean operator
swaps, integer constants +-1, shift amounts, slice bounds, `not` removal,
True/False swap, statement -> pass) and applied textually to one line of a
scratch copy of /repo.  For every mutant the checks of the file's properties
run (first the primary one) until one reports a VIOLATION; survivors are
written to the output file for triage.  Nothing under /repo or the evidence
directory is touched (VERIF_REPO + VERIF_SCRATCH).
"""
import argparse
import ast
import json
import os
import shutil
import subprocess
import sys
import tempfile
from concurrent.futures import ThreadPoolExecutor
from queue import Queue

REPO = "/repo"
FILES = {
    "canopen/sdo/client.py": ["C01", "C07", "C12", "C13", "C06"],
    "canopen/sdo/server.py": ["C02", "C06", "C07"],
    "canopen/sdo/base.py": ["C03", "C01", "C12"],
    "canopen/node/local.py": ["C02", "C06", "C10"],
    "canopen/node/remote.py": ["C10", "C03", "C09"],
    "canopen/variable.py": ["C20", "C03"],
    "canopen/objectdictionary/__init__.py": ["C04", "C08", "C20", "C14"],
    "canopen/objectdictionary/datatypes.py": ["C04", "C03"],
    "canopen/objectdictionary/eds.py": ["C08", "C14"],
    "canopen/pdo/base.py": ["C05", "C09", "C15", "C17"],
    "canopen/pdo/__init__.py": ["C09", "C15", "C17"],
    "canopen/network.py": ["C10", "C17", "C15"],
    "canopen/nmt.py": ["C11", "C17"],
    "canopen/emcy.py": ["C16"],
    "canopen/sync.py": ["C17"],
    "canopen/lss.py": ["C18"],
    "canopen/profiles/p402.py": ["C19"],
}

# second pass (--recheck): the remaining properties, most plausible first
EXT = {
    "canopen/sdo/client.py": ["C03", "C20", "C09", "C19", "C15"],
    "canopen/sdo/server.py": ["C03", "C15", "C17", "C20"],
    "canopen/sdo/base.py": ["C06", "C02", "C13", "C20", "C09", "C19", "C07", "C15"],
    "canopen/node/local.py": ["C03", "C15", "C17", "C11", "C16", "C20"],
    "canopen/node/remote.py": ["C15", "C17", "C19", "C11", "C16", "C01", "C20"],
    "canopen/variable.py": ["C05", "C15", "C19", "C01", "C09", "C04"],
    "canopen/objectdictionary/__init__.py": ["C01", "C02", "C03", "C05", "C06", "C09", "C15", "C19"],
    "canopen/objectdictionary/datatypes.py": ["C20", "C05", "C01", "C02", "C15"],
    "canopen/objectdictionary/eds.py": ["C02", "C09", "C03"],
    "canopen/pdo/base.py": ["C19", "C20", "C10"],
    "canopen/pdo/__init__.py": ["C05", "C19"],
    "canopen/network.py": ["C03", "C11", "C16", "C18", "C09"],
    "canopen/nmt.py": ["C10", "C03"],
    "canopen/emcy.py": ["C10"],
}
ALL = [f"C{k:02d}" for k in range(1, 21)]

CMP = {ast.Lt: ["<="], ast.LtE: ["<"], ast.Gt: [">="], ast.GtE: [">"], ast.Eq: ["!="], ast.NotEq: ["=="],
       ast.Is: ["is not"], ast.IsNot: ["is"], ast.In: ["not in"], ast.NotIn: ["in"]}
CMP_TXT = {ast.Lt: "<", ast.LtE: "<=", ast.Gt: ">", ast.GtE: ">=", ast.Eq: "==", ast.NotEq: "!=",
           ast.Is: "is", ast.IsNot: "is not", ast.In: "in", ast.NotIn: "not in"}
BIN = {ast.Add: ("+", ["-"]), ast.Sub: ("-", ["+"]), ast.Mult: ("*", ["//"]), ast.FloorDiv: ("//", ["*"]),
       ast.Div: ("/", ["*"]), ast.LShift: ("<<", [">>"]), ast.RShift: (">>", ["<<"]),
       ast.BitAnd: ("&", ["|"]), ast.BitOr: ("|", ["&"]), ast.BitXor: ("^", ["&"]), ast.Mod: ("%", ["//"])}


def gen_mutants(path):
    src = open(os.path.join(REPO, path)).read()
    lines = src.split("\n")
    tree = ast.parse(src)
    out = []
    skip_lines = set()
    for node in ast.walk(tree):
        # logging calls, docstrings, raise messages: not behaviour we check
        if isinstance(node, ast.Expr) and isinstance(node.value, ast.Constant) and isinstance(node.value.value, str):
            skip_lines.update(range(node.lineno, node.end_lineno + 1))
        if isinstance(node, ast.Call) and isinstance(node.func, ast.Attribute) and \
                isinstance(node.func.value, ast.Name) and node.func.value.id == "logger":
            skip_lines.update(range(node.lineno, node.end_lineno + 1))

    def seg(n):
        if n.lineno != n.end_lineno:
            return None
        return lines[n.lineno - 1][n.col_offset:n.end_col_offset]

    def add(lineno, col, end, new, kind):
        if lineno in skip_lines:
            return
        line = lines[lineno - 1]
        old = line[col:end]
        if old == new:
            return
        out.append({"file": path, "line": lineno, "col": col, "end": end, "old": old, "new": new, "kind": kind,
                    "text": line.strip()[:120]})

    for node in ast.walk(tree):
        if isinstance(node, ast.Compare) and len(node.ops) == 1 and node.lineno == node.end_lineno:
            op = node.ops[0]
            left, right = node.left, node.comparators[0]
            if left.end_lineno == right.lineno == node.lineno:
                a, b = left.end_col_offset, right.col_offset
                between = lines[node.lineno - 1][a:b]
                txt = CMP_TXT.get(type(op))
                if txt and between.strip() == txt:
                    for new in CMP[type(op)]:
                        add(node.lineno, a, b, between.replace(txt, new), "cmp")
        elif isinstance(node, ast.BinOp) and type(node.op) in BIN and node.lineno == node.end_lineno:
            left, right = node.left, node.right
            if left.end_lineno == right.lineno == node.lineno:
                a, b = left.end_col_offset, right.col_offset
                between = lines[node.lineno - 1][a:b]
                txt, news = BIN[type(node.op)]
                if between.strip().strip("()") == txt or between.strip() == txt:
                    if isinstance(node.op, ast.Mod) and isinstance(left, ast.Constant) and isinstance(left.value, str):
                        continue
                    for new in news:
                        add(node.lineno, a, b, between.replace(txt, new), "binop")
        elif isinstance(node, ast.BoolOp) and node.lineno == node.end_lineno and len(node.values) == 2:
            a, b = node.values[0].end_col_offset, node.values[1].col_offset
            between = lines[node.lineno - 1][a:b]
            txt = "and" if isinstance(node.op, ast.And) else "or"
            if between.strip() == txt:
                add(node.lineno, a, b, between.replace(txt, "or" if txt == "and" else "and"), "boolop")
        elif isinstance(node, ast.UnaryOp) and isinstance(node.op, ast.Not) and node.lineno == node.end_lineno:
            s = seg(node)
            if s and s.startswith("not "):
                add(node.lineno, node.col_offset, node.col_offset + 4, "", "not")
        elif isinstance(node, ast.Constant) and node.lineno == node.end_lineno:
            s = seg(node)
            if isinstance(node.value, bool):
                add(node.lineno, node.col_offset, node.end_col_offset, "False" if node.value else "True", "bool")
            elif isinstance(node.value, int) and s is not None:
                v = node.value
                for nv in {v + 1, v - 1} - {v}:
                    if nv < 0 and v >= 0:
                        continue
                    new = hex(nv) if s.lower().startswith("0x") else str(nv)
                    add(node.lineno, node.col_offset, node.end_col_offset, new, "const")
        elif isinstance(node, (ast.Assign, ast.AugAssign, ast.Expr)) and node.lineno == node.end_lineno:
            if isinstance(node, ast.Expr) and not isinstance(node.value, ast.Call):
                continue
            line = lines[node.lineno - 1]
            if line[:node.col_offset].strip() == "":
                add(node.lineno, node.col_offset, len(line), "pass", "stmt")
        elif isinstance(node, ast.Return) and node.value is not None and node.lineno == node.end_lineno:
            line = lines[node.lineno - 1]
            if line[:node.col_offset].strip() == "" and not (isinstance(node.value, ast.Constant) and node.value.value is None):
                add(node.lineno, node.col_offset, len(line), "return None", "return")
    # de-duplicate
    seen, uniq = set(), []
    for m in out:
        k = (m["line"], m["col"], m["end"], m["new"])
        if k not in seen:
            seen.add(k)
            uniq.append(m)
    return uniq


def worker_dir():
    tmp = tempfile.mkdtemp(prefix="canopen-am-")
    dst = os.path.join(tmp, "repo")
    shutil.copytree(REPO, dst, ignore=shutil.ignore_patterns(".git", "__pycache__", "*.egg-info", "doc", "examples"))
    return tmp, dst


def run_mutant(m, dst, wid):
    path = os.path.join(dst, m["file"])
    orig = open(os.path.join(REPO, m["file"])).read()
    lines = orig.split("\n")
    ln = lines[m["line"] - 1]
    lines[m["line"] - 1] = ln[:m["col"]] + m["new"] + ln[m["end"]:]
    mutated = "\n".join(lines)
    try:
        compile(mutated, path, "exec")
    except SyntaxError:
        return dict(m, verdict="syntax")
    open(path, "w").write(mutated)
    # stale bytecode must not mask the change
    shutil.rmtree(os.path.join(os.path.dirname(path), "__pycache__"), ignore_errors=True)
    verdict, by = "SURVIVED", None
    detail = ""
    try:
        for prop in m.get("props") or FILES[m["file"]]:
            env = dict(os.environ, VERIF_REPO=dst, VERIF_SCRATCH=f"am{wid}", PYTHONHASHSEED="0",
                       PYTHONDONTWRITEBYTECODE="1")
            try:
                r = subprocess.run([sys.executable, "-m", "harness.check", prop, "--tier", "quick"], cwd="/verif",
                                   env=env, capture_output=True, text=True, timeout=400)
            except subprocess.TimeoutExpired:
                verdict, by, detail = "KILLED", prop, "timeout"
                break
            if r.returncode == 1:
                verdict, by = "KILLED", prop
                for l in r.stdout.splitlines():
                    if l.startswith("  "):
                        detail = l.strip()[:160]
                        break
                break
            if r.returncode != 0:
                verdict, by, detail = "KILLED", prop, f"exit {r.returncode}: " + (r.stdout + r.stderr)[-200:]
                break
    finally:
        open(path, "w").write(orig)
    return dict(m, verdict=verdict, by=by, detail=detail, ran=(m.get("ran") or []) + list(m.get("props") or FILES[m["file"]]))


def main():
    ap = argparse.ArgumentParser()
    ap.add_argument("--files", default=None)
    ap.add_argument("--workers", type=int, default=14)
    ap.add_argument("--max", type=int, default=None)
    ap.add_argument("--out", default="/verif/.work/mutants.jsonl")
    ap.add_argument("--kinds", default=None)
    ap.add_argument("--all", action="store_true", help="with --recheck: every property, not only the plausible ones")
    ap.add_argument("--recheck", default=None, help="survivors of an earlier run: try every other property")
    args = ap.parse_args()
    files = args.files.split(",") if args.files else list(FILES)
    muts = []
    for f in files:
        ms = gen_mutants(f)
        if args.kinds:
            ms = [m for m in ms if m["kind"] in args.kinds.split(",")]
        muts += ms
    if args.recheck:
        muts = []
        for l in open(args.recheck):
            m = json.loads(l)
            if m["verdict"] != "SURVIVED":
                continue
            done = m.get("ran") or FILES[m["file"]]
            first = [p for p in EXT.get(m["file"], []) if p not in done]
            m["props"] = first + ([p for p in ALL if p not in done and p not in first] if args.all else [])
            if not m["props"]:
                continue
            m["ran"] = list(done)
            muts.append(m)
    if args.max:
        muts = muts[:args.max]
    print(f"{len(muts)} mutants over {len(files)} files", flush=True)
    os.makedirs(os.path.dirname(args.out), exist_ok=True)
    pool = Queue()
    dirs = []
    for w in range(args.workers):
        tmp, dst = worker_dir()
        dirs.append(tmp)
        pool.put((w, dst))

    def job(m):
        w, dst = pool.get()
        try:
            return run_mutant(m, dst, w)
        finally:
            pool.put((w, dst))

    n = {"KILLED": 0, "SURVIVED": 0, "syntax": 0}
    try:
        with open(args.out, "w") as fo, ThreadPoolExecutor(max_workers=args.workers) as ex:
            for k, res in enumerate(ex.map(job, muts)):
                n[res["verdict"]] = n.get(res["verdict"], 0) + 1
                fo.write(json.dumps(res) + "\n")
                fo.flush()
                if res["verdict"] == "SURVIVED":
                    print(f"SURVIVED {res['file']}:{res['line']} [{res['kind']}] {res['old']!r} -> {res['new']!r}   | {res['text']}",
                          flush=True)
                if (k + 1) % 100 == 0:
                    print(f"... {k + 1}/{len(muts)} {n}", flush=True)
    finally:
        for d in dirs:
            shutil.rmtree(d, ignore_errors=True)
        for w in range(args.workers):
            shutil.rmtree(f"/verif/.work/scratch-am{w}", ignore_errors=True)
    print("done", n)


main()
